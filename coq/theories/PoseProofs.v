(* C08: position packets and own-player position packets (after the fix of the entityId2 comparison) *)
From RU Require Import Base Types Defs BitReader World WireSpec TypesProofs LwwProofs.
From Coq Require Import Lia.
Open Scope N_scope.

Definition set_pose (e : entity) (pos yaw pitch roll : bytes) : entity :=
  set_vol (set_vol (set_vol (set_vol e "position" (Some pos)) "yaw" (Some yaw)) "pitch" (Some pitch)) "roll" (Some roll).

Definition wf_pose (pos yaw pitch roll : bytes) : Prop :=
  length pos = 12%nat /\ length yaw = 4%nat /\ length pitch = 4%nat /\ length roll = 4%nat.
Definition in_i32 (z : Z) : Prop := (- 2 ^ 31 <= z < 2 ^ 31)%Z.

Definition enc_position (id : Z) (veh pos poserr yaw pitch roll : bytes) (flag : byte) : bytes :=
  le_encode 4 (of_signed 4 id) ++ veh ++ pos ++ poserr ++ yaw ++ pitch ++ roll ++ [flag].
Definition enc_player_position (e1 e2 : Z) (pos yaw pitch roll : bytes) : bytes :=
  le_encode 4 (of_signed 4 e1) ++ le_encode 4 (of_signed 4 e2) ++ pos ++ yaw ++ pitch ++ roll.

Lemma get_s4 z rest : in_i32 z -> get_s 4 (le_encode 4 (of_signed 4 z) ++ rest) = Ok (z, rest).
Proof. intros H. apply get_s_app; [lia|]. exact H. Qed.
Lemma get_s4_any a rest : length a = 4%nat -> exists z, get_s 4 (a ++ rest) = Ok (z, rest).
Proof. intros H. unfold get_s. rewrite need_app by exact H. cbn [bind]. eauto. Qed.

Section Pose.
Variable St : setup.

(* a position packet addressed to a known entity sets exactly its four pose components to the packet's values *)
Theorem position_sets_pose w id e veh pos poserr yaw pitch roll flag :
  in_i32 id -> length veh = 4%nat -> length poserr = 12%nat -> wf_pose pos yaw pitch roll ->
  zassoc_get id (w_entities w) = Some e ->
  step_class St w Position (enc_position id veh pos poserr yaw pitch roll flag) = (put w (set_pose e pos yaw pitch roll), None).
Proof.
  intros Hid Hv He (Hp & Hy & Hpi & Hr) Hg. unfold enc_position. cbn [step_class].
  rewrite get_s4 by exact Hid. cbn [bind].
  destruct (get_s4_any veh (pos ++ poserr ++ yaw ++ pitch ++ roll ++ [flag]) Hv) as [z Ez]. rewrite Ez. cbn [bind].
  rewrite need_app by exact Hp. cbn [bind]. rewrite need_app by exact He. cbn [bind].
  rewrite need_app by exact Hy. cbn [bind]. rewrite need_app by exact Hpi. cbn [bind].
  rewrite need_app by exact Hr. cbn [bind]. cbn [need split_exact bind].
  unfold lookup_entity. rewrite Hg. reflexivity.
Qed.
(* addressed to an entity that was never created: the packet fails and nothing changes *)
Theorem position_unknown w id veh pos poserr yaw pitch roll flag :
  in_i32 id -> length veh = 4%nat -> length poserr = 12%nat -> wf_pose pos yaw pitch roll ->
  zassoc_get id (w_entities w) = None ->
  step_class St w Position (enc_position id veh pos poserr yaw pitch roll flag) = (w, Some EKey).
Proof.
  intros Hid Hv He (Hp & Hy & Hpi & Hr) Hg. unfold enc_position. cbn [step_class].
  rewrite get_s4 by exact Hid. cbn [bind].
  destruct (get_s4_any veh (pos ++ poserr ++ yaw ++ pitch ++ roll ++ [flag]) Hv) as [z Ez]. rewrite Ez. cbn [bind].
  rewrite need_app by exact Hp. cbn [bind]. rewrite need_app by exact He. cbn [bind].
  rewrite need_app by exact Hy. cbn [bind]. rewrite need_app by exact Hpi. cbn [bind].
  rewrite need_app by exact Hr. cbn [bind]. cbn [need split_exact bind].
  unfold lookup_entity. rewrite Hg. reflexivity.
Qed.

Lemma pp_parse e1 e2 pos yaw pitch roll : in_i32 e1 -> in_i32 e2 -> wf_pose pos yaw pitch roll ->
  ('(a, r1) <- get_s 4 (enc_player_position e1 e2 pos yaw pitch roll) ;; '(b, r2) <- get_s 4 r1 ;; '(p, r3) <- need 12 r2 ;;
   '(y, r4) <- need 4 r3 ;; '(pi, r5) <- need 4 r4 ;; '(ro, _) <- need 4 r5 ;; Ok (a, b, p, y, pi, ro))
  = Ok (e1, e2, pos, yaw, pitch, roll).
Proof.
  intros H1 H2 (Hp & Hy & Hpi & Hr). unfold enc_player_position.
  rewrite get_s4 by exact H1. cbn [bind]. rewrite get_s4 by exact H2. cbn [bind].
  rewrite need_app by exact Hp. cbn [bind]. rewrite need_app by exact Hy. cbn [bind].
  rewrite need_app by exact Hpi. cbn [bind].
  assert (E : need 4 roll = Ok (roll, [])) by (rewrite <- (app_nil_r roll) at 1; apply need_app; exact Hr).
  rewrite E. reflexivity.
Qed.

(* own-player packet naming NO second entity: the first entity's pose is set from the packet *)
Theorem own_player_no_second w e1 e pos yaw pitch roll :
  in_i32 e1 -> e1 <> 0%Z -> wf_pose pos yaw pitch roll -> zassoc_get e1 (w_entities w) = Some e ->
  step_class St w PlayerPosition (enc_player_position e1 0 pos yaw pitch roll) = (put w (set_pose e pos yaw pitch roll), None).
Proof.
  intros H1 Hne Hwf Hg. cbn [step_class]. rewrite pp_parse; [|exact H1|unfold in_i32; lia|exact Hwf].
  cbn [Z.eqb negb]. destruct (Z.eqb_spec e1 0) as [->|_]; [contradiction|]. cbn [negb]. rewrite Hg. reflexivity.
Qed.
(* ... naming a second entity: the first takes over the second's current pose, whatever the packet carries *)
Theorem own_player_with_second w e1 e2 s m pos yaw pitch roll p y pi ro :
  in_i32 e1 -> in_i32 e2 -> e2 <> 0%Z -> wf_pose pos yaw pitch roll ->
  zassoc_get e1 (w_entities w) = Some s -> zassoc_get e2 (w_entities w) = Some m ->
  assoc_get "position" (en_vol m) = Some p -> assoc_get "yaw" (en_vol m) = Some y ->
  assoc_get "pitch" (en_vol m) = Some pi -> assoc_get "roll" (en_vol m) = Some ro ->
  step_class St w PlayerPosition (enc_player_position e1 e2 pos yaw pitch roll) =
  (put w (set_vol (set_vol (set_vol (set_vol s "position" p) "yaw" y) "pitch" pi) "roll" ro), None).
Proof.
  intros H1 H2 Hne Hwf Hs Hm Gp Gy Gpi Gr. cbn [step_class]. rewrite pp_parse by assumption.
  destruct (Z.eqb_spec e2 0) as [->|_]; [contradiction|]. cbn [negb]. rewrite Hm, Hs.
  rewrite Gp, Gy, Gpi, Gr. reflexivity.
Qed.
(* ... naming an entity that does not exist yet (either of the two): ignored, no failure *)
Theorem own_player_unknown w e1 e2 pos yaw pitch roll :
  in_i32 e1 -> in_i32 e2 -> wf_pose pos yaw pitch roll ->
  (if Z.eqb e2 0 then zassoc_get e1 (w_entities w) = None
   else zassoc_get e2 (w_entities w) = None \/ zassoc_get e1 (w_entities w) = None) ->
  step_class St w PlayerPosition (enc_player_position e1 e2 pos yaw pitch roll) = (w, None).
Proof.
  intros H1 H2 Hwf Hu. cbn [step_class]. rewrite pp_parse by assumption.
  destruct (Z.eqb e2 0); cbn [negb].
  - rewrite Hu. now destruct (negb (e1 =? 0)%Z).
  - destruct Hu as [Hu|Hu]; rewrite Hu; [reflexivity|]. now destruct (zassoc_get e2 (w_entities w)).
Qed.

(* pose state of different entities (same type or not) is never shared: [put] touches one id *)
Theorem pose_independent w e j : ids_ok w -> zassoc_get (en_id e) (w_entities w) <> None -> j <> en_id e ->
  zassoc_get j (w_entities (put w e)) = zassoc_get j (w_entities w).
Proof. intros _ _ Hne. unfold put. cbn [w_entities]. apply zassoc_get_set_other. congruence. Qed.
(* and a pose update leaves every property of the entity alone *)
Theorem set_pose_keeps_properties e pos yaw pitch roll :
  en_client (set_pose e pos yaw pitch roll) = en_client e /\ en_base (set_pose e pos yaw pitch roll) = en_base e /\
  en_type (set_pose e pos yaw pitch roll) = en_type e /\ en_id (set_pose e pos yaw pitch roll) = en_id e.
Proof. repeat split. Qed.
(* defaults before the first packet: a new entity has the definition's volatile tags, all at their default *)
Theorem new_entity_default_pose id name e : new_entity St id name = Ok e -> Forall (fun kv => snd kv = None) (en_vol e).
Proof.
  unfold new_entity. destruct (model_of St name) as [m|]; cbn [bind]; [|discriminate]. intros H; inversion H; subst. cbn [en_vol].
  induction (e_vol m); cbn; constructor; auto.
Qed.
End Pose.
Print Assumptions position_sets_pose.
Print Assumptions own_player_no_second.
Print Assumptions own_player_with_second.
Print Assumptions own_player_unknown.
