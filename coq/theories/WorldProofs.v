From RU Require Import Base Types Defs World.
From Coq Require Import Lia.

Section P.
Variable St : setup.

Lemma atomic_inv w r w' e : atomic w r = (w', Some e) -> w' = w.
Proof. unfold atomic. destruct r; intros H; inversion H; reflexivity. Qed.
Lemma atomic_ok w r w' : atomic w r = (w', None) -> r = Ok w'.
Proof. unfold atomic. destruct r; intros H; inversion H; reflexivity. Qed.

(* observable state = entity table, player id, map (the callback trace is a log of what already happened) *)
Definition same_state (a b : world) : Prop :=
  w_entities a = w_entities b /\ w_player a = w_player b /\ w_map a = w_map b.

Definition atomic_class (c : pclass) : bool :=
  match c with BasePlayerCreate | CellPlayerCreate | PlayerPosition | EntityCreate => false | _ => true end.

(* C12: a packet of these classes that fails (unknown entity, id out of range, undecodable value, malformed layout)
   leaves no trace at all: decode-before-assign *)
Theorem atomic_failures c w pl w' e :
  atomic_class c = true -> step_class St w c pl = (w', Some e) -> w' = w.
Proof.
  intros Hc H. destruct c; try discriminate Hc; cbn [step_class] in H;
  eapply atomic_inv; exact H.
Qed.

(* a failing entity-creation packet never registers the entity; subscribers of the properties decoded
   before the failure have been called, which is all that remains of it *)
Theorem create_failure_keeps_state w pl w' e :
  step_class St w EntityCreate pl = (w', Some e) -> same_state w' w.
Proof.
  cbn [step_class]. intros H.
  match type of H with (match ?x with _ => _ end) = _ => destruct x as [[[[e0 m] cnt] v1]|er] end.
  2: { inversion H; subst. repeat split. }
  match type of H with (match ?g with _ => _ end) = _ => destruct g as [cs [[e' [|b r]]|er]] end;
  inversion H; subst; repeat split.
Qed.

(* C02: a packet whose type the dialect does not map is a no-op wherever it occurs *)
Lemma step_unmapped w p : table_get (pk_type p) (s_table St) = None -> step St w p = (w, None).
Proof. intros H. unfold step. now rewrite H. Qed.

Lemma play_strict_app xs : forall w ys,
  play_strict St w (xs ++ ys) =
  match play_strict St w xs with
  | (w', None) => play_strict St w' ys
  | (w', Some e) => (w', Some e)
  end.
Proof.
  induction xs as [|x xs IH]; intros w ys; [reflexivity|].
  cbn [app play_strict]. destruct (step St w x) as [w1 [e|]]; [reflexivity|]. apply IH.
Qed.
Lemma play_lenient_app xs : forall w ys, play_lenient St w (xs ++ ys) = play_lenient St (play_lenient St w xs) ys.
Proof. induction xs as [|x xs IH]; intros w ys; [reflexivity|]. cbn [app play_lenient]. apply IH. Qed.

Theorem unmapped_is_noop_strict w xs p ys :
  table_get (pk_type p) (s_table St) = None ->
  play_strict St w (xs ++ p :: ys) = play_strict St w (xs ++ ys).
Proof.
  intros H. rewrite !play_strict_app. destruct (play_strict St w xs) as [w1 [e|]]; [reflexivity|].
  cbn [play_strict]. now rewrite step_unmapped.
Qed.
Theorem unmapped_is_noop_lenient w xs p ys :
  table_get (pk_type p) (s_table St) = None ->
  play_lenient St w (xs ++ p :: ys) = play_lenient St w (xs ++ ys).
Proof.
  intros H. rewrite !play_lenient_app. cbn [play_lenient]. now rewrite step_unmapped.
Qed.

(* mapped packets the player only logs or ignores *)
Definition ignored_class (c : pclass) : bool :=
  match c with EntityControl | EntityEnter | EntityLeave | Version | BattleStats => true | _ => false end.

Ltac crush H :=
  repeat match type of H with
  | context [bind ?c _] => let E := fresh "E" in destruct c eqn:E; cbn [bind] in H
  | context [let '(_, _) := ?p in _] => destruct p
  | context [if ?b then _ else _] => destruct b
  end.

Theorem ignored_mapped_is_noop w p c :
  table_get (pk_type p) (s_table St) = Some c -> ignored_class c = true ->
  forall w', step St w p = (w', None) -> w' = w.
Proof.
  intros Ht Hc w' H. unfold step in H. rewrite Ht in H.
  destruct c; try discriminate Hc; destruct (s_game St); cbn [step_class] in H;
  first [ now (inversion H)
        | apply atomic_ok in H; crush H; try discriminate H; inversion H; reflexivity ].
Qed.

(* C05: the id announced by the base-player packet is reported as the recording player *)
Theorem player_id_reported w pl w' :
  step_class St w BasePlayerCreate pl = (w', None) ->
  exists id r, get_s 4 pl = Ok (id, r) /\ w_player w' = Some id.
Proof.
  cbn [step_class]. intros H.
  destruct (get_s 4 pl) as [[id r1]|] eqn:E1; cbn [bind] in H; [|discriminate H].
  exists id, r1. split; [reflexivity|].
  destruct (get_s 2 r1) as [[t r2]|]; cbn [bind] in H; [|discriminate H].
  destruct (binstream r2) as [[val r3]|]; cbn [bind] in H; [|discriminate H].
  destruct (zassoc_get id (w_entities w)) as [e0|].
  - destruct (s_game St).
    + destruct (model_of St (en_type e0)); [|discriminate H]. destruct (fill _ _ _ _) as [e' [er|]]; inversion H; reflexivity.
    + inversion H; reflexivity.
    + destruct (model_of St (en_type e0)); [|discriminate H]. destruct (fill _ _ _ _) as [e' [er|]]; inversion H; reflexivity.
  - destruct (new_entity St id "Avatar") as [e0|]; cbn [bind] in H; [|discriminate H].
    destruct (s_game St).
    + destruct (model_of St (en_type e0)); [|discriminate H]. destruct (fill _ _ _ _) as [e' [er|]]; inversion H; reflexivity.
    + inversion H; reflexivity.
    + destruct (model_of St (en_type e0)); [|discriminate H]. destruct (fill _ _ _ _) as [e' [er|]]; inversion H; reflexivity.
Qed.

(* C12 *)
Theorem no_failure_modes_agree : forall ps w,
  (forall w0 p, In p ps -> snd (step St w0 p) = None) ->
  play_strict St w ps = (play_lenient St w ps, None).
Proof.
  induction ps as [|p r IH]; intros w H; [reflexivity|].
  cbn [play_strict play_lenient]. pose proof (H w p (or_introl eq_refl)) as Hp.
  destruct (step St w p) as [w' [e|]]; cbn in *; [discriminate|]. apply IH. intros; apply H; now right.
Qed.

Fixpoint survivors (w : world) (ps : list packet) : list packet :=
  match ps with
  | [] => []
  | p :: r => match step St w p with
              | (w', None) => p :: survivors w' r
              | (w', Some _) => survivors w' r
              end
  end.
Theorem lenient_is_strict_on_survivors : forall ps w,
  (forall w0 p w1 e, In p ps -> step St w0 p = (w1, Some e) -> w1 = w0) ->
  play_strict St w (survivors w ps) = (play_lenient St w ps, None).
Proof.
  induction ps as [|p r IH]; intros w Hat; [reflexivity|].
  cbn [survivors play_lenient]. destruct (step St w p) as [w' [e|]] eqn:Est; cbn [fst].
  - rewrite (Hat _ _ _ _ (or_introl eq_refl) Est). apply IH. intros w0 q w2 e0 Hin Hs. exact (Hat w0 q w2 e0 (or_intror Hin) Hs).
  - cbn [play_strict]. rewrite Est. apply IH. intros w0 q w2 e0 Hin Hs. exact (Hat w0 q w2 e0 (or_intror Hin) Hs).
Qed.

Theorem strict_stops_at_first_failure : forall ps w w1 e,
  play_strict St w ps = (w1, Some e) ->
  exists pre p post w0, ps = pre ++ p :: post /\ play_strict St w pre = (w0, None) /\ step St w0 p = (w1, Some e).
Proof.
  induction ps as [|p r IH]; intros w w1 e H; cbn [play_strict] in H; [discriminate|].
  destruct (step St w p) as [w' [e'|]] eqn:Est.
  - inversion H; subst. exists [], p, r, w. auto.
  - destruct (IH _ _ _ H) as (pre & q & post & w0 & -> & H1 & H2).
    exists (p :: pre), q, post, w0. cbn [app play_strict]. rewrite Est. auto.
Qed.
End P.
Print Assumptions atomic_failures.
Print Assumptions create_failure_keeps_state.
Print Assumptions lenient_is_strict_on_survivors.
Print Assumptions unmapped_is_noop_strict.

