From RU Require Import Base Pickle.
Open Scope string_scope.

Section P.
Variable policy : gname -> bool.
Definition ok_item (i : item) : Prop := match i with IData => True | IFrom g => policy g = true end.
Definition inv (m : machine) : Prop := Forall ok_item (stack m) /\ Forall (fun g => policy g = true) (calls m).

Lemma calls_snoc l g : Forall (fun g => policy g = true) l -> policy g = true -> Forall (fun g => policy g = true) (l ++ [g]).
Proof. intros Hl Hg. apply Forall_app. split; [assumption|]. constructor; [exact Hg|constructor]. Qed.
Lemma step_inv m o m' : inv m -> step policy m o = Some m' -> inv m'.
Proof.
  intros [Hs Hc] H. destruct o; cbn [step] in H.
  - (* push *) inversion H; subst. split; cbn [stack calls]; [constructor; [exact I|exact Hs]|exact Hc].
  - (* pop *) destruct (stack m) as [|x r] eqn:E; [discriminate|]. inversion H; subst. inversion Hs; subst. split; cbn [stack calls]; assumption.
  - (* global *) destruct (policy g) eqn:P; [|discriminate]. inversion H; subst. split; cbn [stack calls]; [constructor; [exact P|exact Hs]|exact Hc].
  - (* reduce *) destruct (stack m) as [|a [|[|g] r]] eqn:E; try discriminate. inversion H; subst.
    inversion Hs as [|? ? _ Hs']; subst. inversion Hs' as [|? ? Hg Hr]; subst. split; cbn [stack calls].
    + constructor; [exact Hg|exact Hr].
    + apply calls_snoc; assumption.
  - (* newobj *) destruct (stack m) as [|a [|[|g] r]] eqn:E; try discriminate. inversion H; subst.
    inversion Hs as [|? ? _ Hs']; subst. inversion Hs' as [|? ? Hg Hr]; subst. split; cbn [stack calls].
    + constructor; [exact Hg|exact Hr].
    + apply calls_snoc; assumption.
  - (* build *) destruct (stack m) as [|a [|[|g] r]] eqn:E; try discriminate; inversion H; subst;
      inversion Hs as [|? ? _ Hs']; subst; inversion Hs' as [|? ? Hg Hr]; subst; split; cbn [stack calls].
    + constructor; [exact I|exact Hr].
    + exact Hc.
    + constructor; [exact Hg|exact Hr].
    + apply calls_snoc; assumption.
  - (* inst *) destruct (policy g) eqn:P; [|discriminate]. inversion H; subst. split; cbn [stack calls].
    + constructor; [exact P|exact Hs].
    + apply calls_snoc; assumption.
Qed.
Lemma run_inv ops : forall m, inv m -> inv (run policy m ops).
Proof.
  induction ops as [|o r IH]; intros m Hm; [exact Hm|]. cbn [run].
  destruct (step policy m o) as [m'|] eqn:E; [|exact Hm]. apply IH. eapply step_inv; eauto.
Qed.
(* for EVERY opcode sequence: whatever gets called is rooted at a global the policy handed out *)
Theorem calls_come_from_find_class ops g : In g (calls (run policy init ops)) -> policy g = true.
Proof.
  intros H. destruct (run_inv ops init) as [_ Hc]; [split; constructor|].
  rewrite Forall_forall in Hc. now apply Hc.
Qed.
End P.

(* an allow-list policy therefore confines the calls to the allow-list ... *)
Corollary restricted_policy_safe allow ops g :
  In g (calls (run (fun x => existsb (fun a => String.eqb (fst a) (fst x) && String.eqb (snd a) (snd x)) allow) init ops)) ->
  In g allow.
Proof.
  intros H. apply calls_come_from_find_class in H. apply existsb_exists in H as (a & Ha & E).
  apply andb_true_iff in E as [E1 E2]. apply String.eqb_eq in E1, E2. destruct a, g; cbn in *; subst. exact Ha.
Qed.
(* ... and pickle.loads, whose find_class hands out EVERY importable global, does not: the classic payload
   cos\nsystem\n(S'...'\ntR.  makes the process call os.system (known finding C18-a) *)
Example unrestricted_refuted :
  calls (run (fun _ => true) init [OGlobal ("os", "system"); OPush; OReduce]) = [("os", "system")].
Proof. reflexivity. Qed.
(* data-only pickles call nothing, under any policy *)
Theorem data_only_calls_nothing policy ops : Forall (fun o => o = OPush \/ o = OPop) ops -> calls (run policy init ops) = [].
Proof.
  assert (G : forall m, calls m = [] -> Forall (fun o => o = OPush \/ o = OPop) ops -> calls (run policy m ops) = []).
  { induction ops as [|o r IH]; intros m Hm H; [exact Hm|]. inversion H as [|? ? Ho Hr]; subst. cbn [run].
    destruct Ho as [->| ->]; cbn [step].
    - apply IH; auto.
    - destruct (stack m); [exact Hm|]. apply IH; auto. }
  apply G. reflexivity.
Qed.
Print Assumptions calls_come_from_find_class.
Print Assumptions restricted_policy_safe.
