(* Model of CPython's argument binding for  func(entity, *args, **kwargs)  - the call Entity.call_client_method makes -
   and of "a bundled version is internally consistent" (C10).  Definitions only. *)
From RU Require Import Base.
Open Scope string_scope.

Inductive pkind := PosOrKw (has_default : bool) | VarPos | KwOnly (has_default : bool) | VarKw.
Record param := { pa_name : string; pa_kind : pkind }.

Definition is_pos (p : param) : bool := match pa_kind p with PosOrKw _ => true | _ => false end.
Definition is_kwonly (p : param) : bool := match pa_kind p with KwOnly _ => true | _ => false end.
Definition has_varpos (sig : list param) : bool := existsb (fun p => match pa_kind p with VarPos => true | _ => false end) sig.
Definition has_varkw (sig : list param) : bool := existsb (fun p => match pa_kind p with VarKw => true | _ => false end) sig.
Definition required (p : param) : bool := match pa_kind p with PosOrKw false | KwOnly false => true | _ => false end.
Definition mem (s : string) (l : list string) : bool := existsb (String.eqb s) l.

(* npos: number of positional values INCLUDING the entity; knames: the keyword names (dict keys: pairwise different) *)
Definition bind (sig : list param) (npos : nat) (knames : list string) : bool :=
  let pos := filter is_pos sig in
  let kwo := filter is_kwonly sig in
  let filled := map pa_name (firstn npos pos) in
  let nameable := map pa_name (pos ++ kwo)%list in
  (Nat.leb npos (length pos) || has_varpos sig)
  && forallb (fun k => negb (mem k filled) && (mem k nameable || has_varkw sig)) knames
  && forallb (fun p => negb (required p) || mem (pa_name p) knames) (skipn npos pos ++ kwo)%list.

(* one subscription of a bundled controller, with what the SAME version's definitions declare for its target *)
Record subscription := {
  su_kind : nat;                    (* 0 method, 1 property, 2 nested property *)
  su_key : string;                  (* "<entity>_<member or path>" *)
  su_target_exists : bool;          (* the entity has that client method / property (first path component) *)
  su_npos : nat;                    (* declared unnamed arguments (method); 1 for property and nested callbacks *)
  su_names : list string;           (* declared named arguments *)
  su_sig : list param               (* signature of the registered callback (bound method: self already removed) *)
}.
Record version_facts := {
  vf_game : string; vf_name : string;
  vf_defs_load : bool; vf_has_controller : bool; vf_constructs : bool;
  vf_subs : list subscription
}.
Definition sub_ok (s : subscription) : bool := su_target_exists s && bind (su_sig s) (S (su_npos s)) (su_names s).
Definition version_ok (v : version_facts) : bool :=
  vf_defs_load v && vf_has_controller v && vf_constructs v && forallb sub_ok (vf_subs v).
(* the failing (version, key) pairs; a version without controller fails as a whole with key "" *)
Definition vlabel (v : version_facts) : string := vf_game v ++ "/" ++ vf_name v.
Definition failures (vs : list version_facts) : list (string * string) :=
  flat_map (fun v =>
    List.app (if vf_defs_load v && vf_has_controller v && vf_constructs v then [] else [(vlabel v, "")])
             (map (fun s => (vlabel v, su_key s)) (filter (fun s => negb (sub_ok s)) (vf_subs v)))) vs.
