(* C11: which bundled version a replay is played with *)
From RU Require Import Base Version.
From Coq Require Import Lia.
Open Scope string_scope.

Lemma find_dir_name name inv d : find_dir name inv = Some d -> vd_name d = name /\ In d inv.
Proof.
  induction inv as [|x r IH]; cbn [find_dir]; [discriminate|].
  destruct (String.eqb_spec (vd_name x) name) as [E|E].
  - intros H; inversion H; subst. split; [reflexivity|now left].
  - intros H. destruct (IH H). split; [assumption|now right].
Qed.
Lemma find_dir_none name inv : find_dir name inv = None -> forall d, In d inv -> vd_name d <> name.
Proof.
  induction inv as [|x r IH]; cbn [find_dir]; intros H d Hin; [contradiction|].
  destruct (String.eqb_spec (vd_name x) name) as [E|E]; [discriminate|].
  destruct Hin as [<-|Hin]; [assumption|]. now apply IH.
Qed.

(* every bundled directory carries its definitions (alias.xml) - checked for the working tree by a generated
   instance theorem *)
Definition inv_coherent (inv : list vdir) : Prop := forall d, In d inv -> vd_alias d = true.

Section Resolve.
Variable inv : list vdir.
Hypothesis Hcoh : inv_coherent inv.

Lemma get_definitions_found v d : find_dir v inv = Some d -> get_definitions inv v = inl d.
Proof. intros H. unfold get_definitions. rewrite H. destruct (find_dir_name _ _ _ H) as [_ Hin]. now rewrite (Hcoh d Hin). Qed.
Lemma get_definitions_missing v : find_dir v inv = None -> get_definitions inv v = inr VNotSupported.
Proof. intros H. unfold get_definitions. now rewrite H. Qed.

(* wows / wowp: the four-component directory if it is bundled, otherwise the three-component one; controller and
   definitions ALWAYS from the same directory; nothing else is ever selected *)
Theorem resolve_exact g parts s : g <> VWot -> select_version g inv parts = inl s ->
  sel_controller s = sel_definitions s /\
  (match find_dir (join "_" (firstn 4 parts)) inv with
   | Some _ => sel_controller s = join "_" (firstn 4 parts)
   | None => sel_controller s = join "_" (firstn 3 parts) /\ find_dir (join "_" (firstn 3 parts)) inv <> None
   end).
Proof.
  intros Hg H. unfold select_version in H. destruct g; [|contradiction|];
  unfold fallback in H;
  (destruct (find_dir (join "_" (firstn 4 parts)) inv) as [d4|] eqn:E4;
   [ rewrite (get_definitions_found _ _ E4) in H; unfold get_controller in H; rewrite E4 in H;
     destruct (vd_controller d4); [|discriminate H];
     destruct (find_dir_name _ _ _ E4) as [N4 _]
   | rewrite (get_definitions_missing _ E4) in H; unfold get_controller in H; rewrite E4 in H;
     destruct (find_dir (join "_" (firstn 3 parts)) inv) as [d3|] eqn:E3; [|discriminate H];
     rewrite (get_definitions_found _ _ E3) in H; destruct (vd_controller d3); [|discriminate H];
     destruct (find_dir_name _ _ _ E3) as [N3 _] ]).
  - destruct (parse_release parts); [|discriminate H]. inversion H; subst; cbn. auto.
  - destruct (parse_release parts); [|discriminate H]. inversion H; subst; cbn. split; [reflexivity|]. split; [assumption|discriminate].
  - inversion H; subst; cbn. auto.
  - inversion H; subst; cbn. split; [reflexivity|]. split; [assumption|discriminate].
Qed.

(* a version that is not bundled (neither the four- nor the three-component name) is refused with the loader's
   "not supported" error - it is never played with another version's data *)
Theorem resolve_refuses g parts : g <> VWot ->
  find_dir (join "_" (firstn 4 parts)) inv = None -> find_dir (join "_" (firstn 3 parts)) inv = None ->
  select_version g inv parts = inr VNotSupported.
Proof.
  intros Hg E4 E3. unfold select_version. destruct g; [|contradiction|]; unfold fallback, get_controller; now rewrite E4, E3.
Qed.
(* a directory without a controller class (wowp 0_3_3) is refused too, with an AssertionError, not silently replaced *)
Theorem resolve_no_controller g parts d : g <> VWot ->
  find_dir (join "_" (firstn 4 parts)) inv = Some d -> vd_controller d = false -> select_version g inv parts = inr VAssert.
Proof.
  intros Hg E4 Hc. unfold select_version. destruct g; [|contradiction|]; unfold fallback, get_controller; now rewrite E4, Hc.
Qed.
(* wot: exactly the directory named by the three components, or ImportError *)
Theorem resolve_wot parts s : select_version VWot inv parts = inl s ->
  sel_controller s = replace_all "." "_" (join "." parts) /\ sel_definitions s = sel_controller s /\ sel_new_table s = false.
Proof.
  unfold select_version, get_controller. intros H.
  destruct (find_dir (replace_all "." "_" (join "." parts)) inv) as [d|] eqn:E; [|discriminate H].
  destruct (vd_controller d); [|discriminate H]. rewrite (get_definitions_found _ _ E) in H.
  inversion H; subst; cbn. destruct (find_dir_name _ _ _ E) as [N _]. auto.
Qed.
Theorem resolve_wot_refuses parts : find_dir (replace_all "." "_" (join "." parts)) inv = None -> select_version VWot inv parts = inr VImport.
Proof. intros E. unfold select_version, get_controller. now rewrite E. Qed.
End Resolve.

(* ---- the packet table switch: numeric comparison of the release with 12.6.0 ---- *)
Open Scope N_scope.
Lemma strip_12_6_0 : strip_trailing_zeros [12; 6; 0] = [12; 6].
Proof. reflexivity. Qed.
Lemma strip_cons_nonempty x r : strip_trailing_zeros r <> [] -> strip_trailing_zeros (x :: r) = x :: strip_trailing_zeros r.
Proof. intros H. cbn [strip_trailing_zeros]. destruct (strip_trailing_zeros r); [contradiction|reflexivity]. Qed.
Lemma strip_cons_empty x r : strip_trailing_zeros r = [] -> strip_trailing_zeros (x :: r) = if x =? 0 then [] else [x].
Proof. intros H. cbn [strip_trailing_zeros]. now rewrite H. Qed.
(* new numbering  <=>  major > 12, or major = 12 and minor >= 6   (so 12.10 > 12.6, and 12.6 = 12.6.0 = 12.6.0.0) *)
Theorem table_switch a b rest :
  release_ge (a :: b :: rest) [12; 6; 0] = true <-> (12 < a \/ (a = 12 /\ 6 <= b)).
Proof.
  unfold release_ge. rewrite strip_12_6_0.
  destruct (strip_trailing_zeros rest) as [|r0 rr] eqn:Er.
  - destruct (N.eqb_spec b 0) as [->|Hb0].
    + assert (Hb : strip_trailing_zeros (0 :: rest) = []) by (rewrite strip_cons_empty by exact Er; reflexivity).
      rewrite (strip_cons_empty a _ Hb). destruct (N.eqb_spec a 0) as [->|Ha0]; cbn [tuple_ge].
      * split; [discriminate|lia].
      * destruct (N.ltb_spec 12 a); [split; auto|]. destruct (N.ltb_spec a 12); [split; [discriminate|lia]|]. split; [discriminate|lia].
    + assert (Hb : strip_trailing_zeros (b :: rest) = [b]).
      { rewrite strip_cons_empty by exact Er. destruct (N.eqb_spec b 0); [contradiction|reflexivity]. }
      rewrite strip_cons_nonempty by (rewrite Hb; discriminate). rewrite Hb. cbn [tuple_ge].
      destruct (N.ltb_spec 12 a); [split; auto|]. destruct (N.ltb_spec a 12); [split; [discriminate|lia]|].
      destruct (N.ltb_spec 6 b); [split; [lia|auto]|]. destruct (N.ltb_spec b 6); [split; [discriminate|lia]|]. split; [lia|auto].
  - assert (Hb : strip_trailing_zeros (b :: rest) = b :: r0 :: rr) by (rewrite strip_cons_nonempty; rewrite Er; [reflexivity|discriminate]).
    rewrite strip_cons_nonempty by (rewrite Hb; discriminate). rewrite Hb. cbn [tuple_ge].
    destruct (N.ltb_spec 12 a); [split; auto|]. destruct (N.ltb_spec a 12); [split; [discriminate|lia]|].
    destruct (N.ltb_spec 6 b); [split; [lia|auto]|]. destruct (N.ltb_spec b 6); [split; [discriminate|lia]|]. split; [lia|auto].
Qed.
Example table_switch_examples :
  release_ge [12; 10; 0; 7] [12; 6; 0] = true /\ release_ge [12; 6] [12; 6; 0] = true /\ release_ge [12; 5; 9] [12; 6; 0] = false
  /\ release_ge [0; 11; 11] [12; 6; 0] = false /\ release_ge [13; 0; 0] [12; 6; 0] = true.
Proof. repeat split; reflexivity. Qed.
Print Assumptions resolve_exact.
Print Assumptions table_switch.

(* ---- the version string formats ---- *)
Open Scope string_scope.
Fixpoint remove_char (c : ascii) (s : string) : string :=
  match s with EmptyString => EmptyString | String x r => if Ascii.eqb x c then remove_char c r else String x (remove_char c r) end.
Fixpoint has_char (c : ascii) (s : string) : bool :=
  match s with EmptyString => false | String x r => Ascii.eqb x c || has_char c r end.

Lemma replace_space_fuel : forall s fuel, (String.length s < fuel)%nat -> replace_fuel fuel " " "" s = remove_char " " s.
Proof.
  induction s as [|c r IH]; intros fuel H; (destruct fuel as [|f]; [cbn in H; lia|]); [reflexivity|].
  cbn [replace_fuel prefixb remove_char]. rewrite andb_true_r. rewrite (Ascii.eqb_sym " " c).
  destruct (Ascii.eqb c " ") eqn:E.
  - cbn [String.length drop append]. apply IH. cbn in H. lia.
  - f_equal. apply IH. cbn in H. lia.
Qed.
Lemma replace_space s : replace_all " " "" s = remove_char " " s.
Proof. apply replace_space_fuel. lia. Qed.

Lemma split_acc_part sep : forall p rest cur, has_char sep p = false ->
  split_acc sep (p ++ rest) cur = split_acc sep rest (cur ++ p).
Proof.
  induction p as [|c p IH]; intros rest cur H; cbn [append].
  - f_equal. clear. induction cur; cbn; congruence.
  - cbn [has_char] in H. apply orb_false_iff in H as [Hc Hp]. cbn [split_acc]. rewrite Hc.
    rewrite IH by exact Hp. f_equal. clear. induction cur; cbn; congruence.
Qed.
Lemma append_nil_r (s : string) : s ++ "" = s.
Proof. induction s; cbn; congruence. Qed.
Lemma split_join sep parts : parts <> [] -> Forall (fun p => has_char sep p = false) parts ->
  split_on sep (join (String sep EmptyString) parts) = parts.
Proof.
  unfold split_on. intros Hne H.
  assert (G : forall cur, split_acc sep (join (String sep EmptyString) parts) cur =
                          match parts with [] => [cur] | p :: r => (cur ++ p) :: r end).
  { induction H as [|p r Hp Hr IH]; [contradiction|]. intros cur.
    destruct r as [|q r'].
    - cbn [join]. rewrite <- (append_nil_r p) at 1. rewrite split_acc_part by exact Hp. reflexivity.
    - cbn [join]. rewrite split_acc_part by exact Hp. cbn [append split_acc]. rewrite Ascii.eqb_refl.
      rewrite IH by discriminate. reflexivity. }
  rewrite G. destruct parts; [contradiction|reflexivity].
Qed.
Lemma remove_char_app c a b : remove_char c (a ++ b) = remove_char c a ++ remove_char c b.
Proof. induction a as [|x a IH]; cbn; [reflexivity|]. destruct (Ascii.eqb x c); cbn; now rewrite IH. Qed.
Lemma remove_char_clean c s : has_char c s = false -> remove_char c s = s.
Proof. induction s as [|x s IH]; cbn; [reflexivity|]. intros H. apply orb_false_iff in H as [-> Hs]. now rewrite IH. Qed.

(* wows: "a, b, c, d" with any amount of blanks around the commas (the games write ", " or ",") *)
Fixpoint spaced (parts : list string) (blanks : list nat) : string :=
  match parts with
  | [] => EmptyString
  | [p] => p
  | p :: r => p ++ "," ++ String.concat "" (repeat " " (hd O blanks)) ++ spaced r (tl blanks)
  end.
Lemma remove_blanks n : remove_char " " (String.concat "" (repeat " " n)) = "".
Proof.
  induction n as [|n IH]; [reflexivity|]. cbn [repeat String.concat]. destruct (repeat " " n) eqn:E.
  - reflexivity.
  - cbn [append remove_char]. cbn. rewrite <- E in *. cbn [String.concat] in IH.
    destruct n; [discriminate|]. cbn [repeat] in E. inversion E; subst. cbn [String.concat]. cbn [append remove_char].
    change (Ascii.eqb " " " ") with true. cbv iota. exact IH.
Qed.
Theorem norm_wows_format parts blanks : parts <> [] ->
  Forall (fun p => has_char "," p = false /\ has_char " " p = false) parts ->
  norm_wows (spaced parts blanks) = parts.
Proof.
  intros Hne H. unfold norm_wows. rewrite replace_space.
  assert (G : remove_char " " (spaced parts blanks) = join "," parts).
  { clear Hne. revert blanks. induction H as [|p r [Hc Hs] _ IH]; intros blanks; [reflexivity|].
    destruct r as [|q r'].
    - cbn [spaced join]. now apply remove_char_clean.
    - change (spaced (p :: q :: r') blanks) with (p ++ "," ++ String.concat "" (repeat " " (hd O blanks)) ++ spaced (q :: r') (tl blanks)).
      change (join "," (p :: q :: r')) with (p ++ "," ++ join "," (q :: r')).
      rewrite remove_char_app, (remove_char_clean " " p) by exact Hs. f_equal.
      change ("," ++ String.concat "" (repeat " " (hd O blanks)) ++ spaced (q :: r') (tl blanks))
        with (String "," (String.concat "" (repeat " " (hd O blanks)) ++ spaced (q :: r') (tl blanks))).
      cbn [remove_char]. change (Ascii.eqb "," " ") with false. cbv iota.
      rewrite remove_char_app, remove_blanks. cbn [append]. rewrite IH. reflexivity. }
  rewrite G. apply split_join; [exact Hne|]. eapply Forall_impl; [|exact H]. cbn. tauto.
Qed.
(* the formats the three games write (literals from the sample recordings) *)
Example norm_examples :
  norm_wows "0, 8, 0, 1284547" = ["0"; "8"; "0"; "1284547"] /\
  norm_wows "13,2,0,7983292" = ["13"; "2"; "0"; "7983292"] /\
  norm_wot (wot_prefix ++ "1.8.0.2 #252") = "1.8.0" /\
  norm_wot (wot_prefix ++ "1.10.0.0 #1029") = "1.10.0" /\
  norm_wowp "World of Warplanes 2.1.17.1" = ["2"; "1"; "17"; "1"] /\
  norm_wowp "World of Warplanes 2. 1. 20" = ["2"; "1"; "20"].
Proof. repeat split; reflexivity. Qed.
Print Assumptions norm_wows_format.

(* ---- C18: the path handed to Definitions contains no '.', hence no '..' component: it cannot climb out of versions/ ---- *)
Lemma replace_dot_fuel : forall s fuel, (String.length s < fuel)%nat -> has_char "." (replace_fuel fuel "." "_" s) = false.
Proof.
  induction s as [|c r IH]; intros fuel H; (destruct fuel as [|f]; [cbn in H; lia|]); [reflexivity|].
  cbn [replace_fuel prefixb]. rewrite andb_true_r. rewrite (Ascii.eqb_sym "." c).
  destruct (Ascii.eqb c ".") eqn:E.
  - cbn [String.length drop append has_char]. change (Ascii.eqb "_" ".") with false. cbn [orb]. apply IH. cbn in H. lia.
  - cbn [has_char]. rewrite E. cbn [orb]. apply IH. cbn in H. lia.
Qed.
Theorem defs_path_no_dot v : has_char "." (defs_path v) = false.
Proof. unfold defs_path, replace_all. apply replace_dot_fuel. lia. Qed.
(* in particular no component of the path is ".." *)
Corollary defs_path_no_dotdot v : ~ In ".." (split_on "/" (defs_path v)).
Proof.
  intros H. pose proof (defs_path_no_dot v) as Hn. revert H. unfold split_on.
  assert (G : forall s cur, has_char "." s = false -> has_char "." cur = false -> forall x, In x (split_acc "/" s cur) -> has_char "." x = false).
  { induction s as [|c r IH]; intros cur Hs Hc x Hx; cbn [split_acc] in Hx.
    - destruct Hx as [<-|[]]; exact Hc.
    - cbn [has_char] in Hs. apply orb_false_iff in Hs as [Hc1 Hr]. destruct (Ascii.eqb c "/").
      + destruct Hx as [<-|Hx]; [exact Hc|]. exact (IH EmptyString Hr eq_refl x Hx).
      + eapply IH; [exact Hr| |exact Hx]. clear -Hc Hc1. induction cur as [|a cur IHc]; cbn [append has_char] in *.
        * now rewrite Hc1.
        * apply orb_false_iff in Hc as [H1 H2]. rewrite H1. cbn [orb]. now apply IHc. }
  intros H. specialize (G (defs_path v) "" Hn eq_refl ".." H). discriminate G.
Qed.
(* the crafted strings tried by the check, evaluated: the path stays below versions/ *)
Example defs_path_examples :
  defs_path "0_9_4_2442770/../../../../tmp/evil" = "0_9_4_2442770/__/__/__/__/tmp/evil" /\ defs_path "0_9_4_x/../.." = "0_9_4_x/__/__".
Proof. split; reflexivity. Qed.
Print Assumptions defs_path_no_dotdot.
