(* Model.Types: the .def type language, values, decoding (mirrors data_types/*.py) *)
From RU Require Import Base.
Open Scope N_scope.

Inductive dtype :=
| TUInt (w : nat) | TInt (w : nat) | TF32 | TF64 | TVec (nbytes : nat)
| TString | TBlob | TPython | TMailbox
| TArray (elem : dtype) (size : option nat)
| TDict (fields : list (string * dtype)) (allow_none : bool)
| TUser (inner : dtype).

Inductive value :=
| VInt (z : Z)
| VF32 (b : bytes) | VF64 (b : bytes) | VVec (b : bytes)
| VStr (b : bytes)          (* decoded as utf-8 text *)
| VBytes (b : bytes)
| VMail (ip : bytes) (port : N)
| VList (elem : dtype) (l : list value)
| VDict (fields : list (string * dtype)) (kvs : list (string * value))
| VNone.

Definition INFINITY : N := 65535.

Fixpoint size_in_bytes (t : dtype) : N :=
  match t with
  | TUInt w | TInt w => N.of_nat w
  | TF32 => 4 | TF64 => 8 | TVec n => N.of_nat n
  | TString | TBlob | TPython | TMailbox | TUser _ => INFINITY
  | TArray e None => INFINITY
  | TArray e (Some n) => size_in_bytes e * N.of_nat n
  | TDict fs true => INFINITY
  | TDict fs false =>
      (fix go (fs : list (string * dtype)) : N :=
         match fs with [] => 0 | (_, t') :: r => size_in_bytes t' + go r end) fs
  end.

Definition is_blob (t : dtype) : bool := match t with TBlob => true | _ => false end.

(* length prefixes as the three readers implement them *)
Definition plen_blob (bs : bytes) : result (N * bytes) :=
  '(n, r) <- get_u 1 bs ;; if n =? 255 then get_u 3 r else Ok (n, r).
(* STRING: the same packed length as BLOB (0xff, then 24 bits little-endian) - since the repair recorded as fixed: C03-a *)
Definition plen_string (bs : bytes) : result (N * bytes) :=
  '(n, r) <- get_u 1 bs ;; if n =? 255 then get_u 3 r else Ok (n, r).
(* PYTHON: the packed length too (fixed: C03-b; it used to be one byte) *)
Definition plen_py (bs : bytes) : result (N * bytes) := plen_blob bs.

Definition text_or_bytes (b : bytes) : value := if utf8_valid b then VStr b else VBytes b.

Fixpoint decode (hdr : nat) (t : dtype) (bs : bytes) {struct t} : result (value * bytes) :=
  match t with
  | TUInt w => '(n, r) <- get_u w bs ;; Ok (VInt (Z.of_N n), r)
  | TInt w => '(z, r) <- get_s w bs ;; Ok (VInt z, r)
  | TF32 => '(l, r) <- need 4 bs ;; Ok (VF32 l, r)
  | TF64 => '(l, r) <- need 8 bs ;; Ok (VF64 l, r)
  | TVec n => '(l, r) <- need n bs ;; Ok (VVec l, r)
  | TBlob =>
      '(n', r') <- plen_blob bs ;;
      let '(p, r'') := read_uptoN n' r' in
      if N.of_nat (length p) =? n' then Ok (VBytes p, r'') else Err EAssert
  | TString =>
      '(n', r') <- plen_string bs ;;
      let '(p, r'') := read_uptoN n' r' in
      Ok (text_or_bytes p, r'')
  | TPython =>
      '(n, r) <- plen_py bs ;;
      let '(p, r') := read_uptoN n r in Ok (VBytes p, r')
  | TMailbox =>
      let '(ip, r) := read_upto 4 bs in
      if Nat.eqb (length ip) 4 then
        '(pt, r') <- need 2 r ;; Ok (VMail ip (be_decode pt), r')
      else Err EOS
  | TArray e sz =>
      let fix loop (n : nat) (bs : bytes) : result (list value * bytes) :=
        match n with
        | O => Ok ([], bs)
        | S n' => '(v, r) <- decode hdr e bs ;; '(vs, r') <- loop n' r ;; Ok (v :: vs, r')
        end in
      match sz with
      | Some n => '(vs, r) <- loop n bs ;; Ok (VList e vs, r)
      | None => '(c, r) <- get_u 1 bs ;; '(vs, r') <- loop (N.to_nat c) r ;; Ok (VList e vs, r')
      end
  | TDict fs an =>
      let fix fields (fl : list (string * dtype)) (bs : bytes) : result (list (string * value) * bytes) :=
        match fl with
        | [] => Ok ([], bs)
        | (k, t') :: fl' => '(v, r) <- decode hdr t' bs ;; '(vs, r') <- fields fl' r ;; Ok ((k, v) :: vs, r')
        end in
      let body (bs : bytes) := '(vs, r) <- fields fs bs ;; Ok (VDict fs vs, r) in
      if an then
        match bs with
        | b :: r => if b2n b =? 0 then Ok (VNone, r) else if b2n b =? 1 then body r else body bs
        | [] => body bs
        end
      else body bs
  | TUser inner =>
      if is_blob inner then decode hdr inner bs
      else decode hdr inner (snd (read_upto hdr bs))
  end.

(* a sequence of values one after the other (method arguments, the values of a creation packet) *)
Fixpoint decode_seq (hdr : nat) (ts : list dtype) (bs : bytes) : result (list value * bytes) :=
  match ts with
  | [] => Ok ([], bs)
  | t :: r => '(v, rest) <- decode hdr t bs ;; '(vs, rest') <- decode_seq hdr r rest ;; Ok (v :: vs, rest')
  end.

(* ---- a lower bound on what a successful decode consumes ---- *)
Fixpoint min_size (t : dtype) : nat :=
  match t with
  | TUInt w | TInt w => w
  | TF32 => 4%nat | TF64 => 8%nat | TVec n => n
  | TString | TBlob | TPython => 1%nat
  | TMailbox => 6%nat
  | TArray e None => 1%nat
  | TArray e (Some n) => (n * min_size e)%nat
  | TDict fs an =>
      let body := (fix go (fl : list (string * dtype)) : nat := match fl with [] => O | (_, t') :: r => (min_size t' + go r)%nat end) fs in
      if an then Nat.min 1 body else body
  | TUser inner => min_size inner
  end.


(* array element types (at any depth) from which a successful decode may consume nothing: on those the element loop of
   a nested update (`while io.tell() != len(rest)`) would not terminate *)
Fixpoint zero_size_elems (t : dtype) : list dtype :=
  match t with
  | TArray e _ => (if Nat.eqb (min_size e) 0 then [e] else []) ++ zero_size_elems e
  | TDict fs _ => (fix go (fl : list (string * dtype)) : list dtype := match fl with [] => [] | (_, t') :: r => zero_size_elems t' ++ go r end) fs
  | TUser i => zero_size_elems i
  | _ => []
  end.
Fixpoint count_arrays (t : dtype) : nat :=
  match t with
  | TArray e _ => S (count_arrays e)
  | TDict fs _ => (fix go (fl : list (string * dtype)) : nat := match fl with [] => O | (_, t') :: r => (count_arrays t' + go r)%nat end) fs
  | TUser i => count_arrays i
  | _ => O
  end.
