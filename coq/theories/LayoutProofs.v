(* The model's step function IS the table-driven one: for every dialect, packet class, world and payload, World.step_class equals
   Layout.step_layout, which reads the header fields by the generic parser from class_layout and hands them to the class's handler.
   With the generated instance theorems (the layouts translated from the working tree are class_layout's) this ties the byte layout of
   every packet class to the source on every run. *)
From RU Require Import Base Types Defs BitReader World Layout.
From Coq Require Import Lia.
Open Scope N_scope.

Lemma split_exact_add a b bs :
  split_exact (a + b) bs = match split_exact a bs with
                           | Some (x, r) => match split_exact b r with Some (y, r') => Some ((x ++ y)%list, r') | None => None end
                           | None => None
                           end.
Proof.
  revert bs; induction a as [|a IH]; intros bs; cbn [Nat.add split_exact].
  - destruct (split_exact b bs) as [[y r']|]; reflexivity.
  - destruct bs as [|c bs]; [reflexivity|]. rewrite IH. destruct (split_exact a bs) as [[x r]|]; [|reflexivity].
    destruct (split_exact b r) as [[y r']|]; reflexivity.
Qed.
Lemma need_add a b bs :
  need (a + b) bs = match need a bs with
                    | Ok (x, r) => match need b r with Ok (y, r') => Ok ((x ++ y)%list, r') | Err e => Err e end
                    | Err e => Err e
                    end.
Proof.
  unfold need. rewrite split_exact_add. destruct (split_exact a bs) as [[x r]|]; [|reflexivity].
  destruct (split_exact b r) as [[y r']|]; reflexivity.
Qed.

Ltac nd :=
  match goal with
  | |- context [need 24 ?b] => change (need 24 b) with (need (12 + 12) b); rewrite (need_add 12 12 b)
  | |- context [need 8 ?b] => change (need 8 b) with (need (4 + 4) b); rewrite (need_add 4 4 b)
  | |- context [need 5 ?b] => change (need 5 b) with (need (4 + 1) b); rewrite (need_add 4 1 b)
  | |- context [need ?n ?b] => destruct (need n b) as [[? ?]|?]; cbn [bind fst snd]
  | |- context [binstream ?b] => destruct (binstream b) as [[? ?]|?]; cbn [bind fst snd]
  end.

Section L.
Variable St : setup.

Theorem step_class_is_layout w c pl : step_class St w c pl = step_layout St w c pl.
Proof.
  unfold step_layout. destruct c.
  all: cbn [class_layout].
  - (* BasePlayerCreate *)
    unfold step_class. cbn [parse_layout]. unfold get_s.
    repeat nd; reflexivity.
  - (* CellPlayerCreate *)
    destruct (s_game St) eqn:G; [| |reflexivity].
    + unfold step_class. rewrite G. cbn [parse_layout handle]. unfold get_s. rewrite ?G.
      repeat nd; reflexivity.
    + unfold step_class. rewrite G. cbn [parse_layout handle]. unfold get_s. rewrite ?G.
      repeat nd; reflexivity.
  - (* EntityControl *) unfold step_class, atomic. cbn [parse_layout handle]. unfold get_s. repeat nd; reflexivity.
  - (* EntityEnter *) unfold step_class, atomic. cbn [parse_layout handle]. unfold get_s. repeat nd; reflexivity.
  - (* EntityLeave *) unfold step_class, atomic. cbn [parse_layout handle]. unfold get_s. repeat nd; reflexivity.
  - (* EntityCreate *)
    destruct (s_game St) eqn:G; [| |reflexivity].
    + unfold step_class. rewrite G. cbn [parse_layout handle]. unfold get_s. rewrite ?G. repeat nd; reflexivity.
    + unfold step_class. rewrite G. cbn [parse_layout handle]. unfold get_s. rewrite ?G. repeat nd; reflexivity.
  - (* EntityProperty *) unfold step_class, atomic. cbn [parse_layout handle]. unfold get_u. repeat nd; reflexivity.
  - (* EntityMethod *) unfold step_class, atomic. cbn [parse_layout handle]. unfold get_u. repeat nd; reflexivity.
  - (* Position *) unfold step_class, atomic. cbn [parse_layout handle]. unfold get_s. repeat nd; reflexivity.
  - (* Version *) unfold step_class, atomic. cbn [parse_layout handle]. unfold get_s. repeat nd; reflexivity.
  - (* PlayerPosition *)
    destruct (s_game St) eqn:G; [|reflexivity|reflexivity].
    unfold step_class. cbn [parse_layout handle]. unfold get_s. repeat nd; reflexivity.
  - (* Map *)
    destruct (s_game St) eqn:G; [reflexivity| |reflexivity].
    unfold step_class, atomic, decode_map. rewrite G. cbn [parse_layout handle]. unfold get_s. repeat nd; try reflexivity.
    unfold atomic. destruct (utf8_valid _); reflexivity.
  - (* NestedProperty *) unfold step_class, atomic. cbn [parse_layout handle]. unfold get_s, get_u. repeat nd; reflexivity.
  - (* BattleStats *)
    destruct (s_game St) eqn:G; [|reflexivity|reflexivity].
    unfold step_class, atomic. cbn [parse_layout handle]. unfold get_s. repeat nd; reflexivity.
Qed.
End L.
Print Assumptions step_class_is_layout.
