(* The model's step function IS the table-driven one: for every dialect, packet class, world and payload, World.step_class equals
   Layout.step_layout, which reads the header fields by the generic parser from class_layout and hands them to the class's handler.
   With the generated instance theorems (the layouts translated from the working tree are class_layout's) this ties the byte layout of
   every packet class to the source on every run. *)
From RU Require Import Base Types Defs BitReader World Layout.
From Coq Require Import Lia.
Open Scope N_scope.

Lemma split_exact_add a b bs :
  split_exact (a + b) bs = match split_exact a bs with
                           | Some (x, r) => match split_exact b r with Some (y, r') => Some ((x ++ y)%list, r') | None => None end
                           | None => None
                           end.
Proof.
  revert bs; induction a as [|a IH]; intros bs; cbn [Nat.add split_exact].
  - destruct (split_exact b bs) as [[y r']|]; reflexivity.
  - destruct bs as [|c bs]; [reflexivity|]. rewrite IH. destruct (split_exact a bs) as [[x r]|]; [|reflexivity].
    destruct (split_exact b r) as [[y r']|]; reflexivity.
Qed.
Lemma need_add a b bs :
  need (a + b) bs = match need a bs with
                    | Ok (x, r) => match need b r with Ok (y, r') => Ok ((x ++ y)%list, r') | Err e => Err e end
                    | Err e => Err e
                    end.
Proof.
  unfold need. rewrite split_exact_add. destruct (split_exact a bs) as [[x r]|]; [|reflexivity].
  destruct (split_exact b r) as [[y r']|]; reflexivity.
Qed.

Ltac nd :=
  match goal with
  | |- context [need 24 ?b] => change (need 24 b) with (need (12 + 12) b); rewrite (need_add 12 12 b)
  | |- context [need 8 ?b] => change (need 8 b) with (need (4 + 4) b); rewrite (need_add 4 4 b)
  | |- context [need 5 ?b] => change (need 5 b) with (need (4 + 1) b); rewrite (need_add 4 1 b)
  | |- context [need (?x + ?y) ?b] => rewrite (need_add x y b)
  | |- context [need ?n ?b] => destruct (need n b) as [[? ?]|?]; cbn [bind fst snd]
  | |- context [binstream ?b] => destruct (binstream b) as [[? ?]|?]; cbn [bind fst snd]
  end.

Section L.
Variable St : setup.

Theorem step_class_is_layout w c pl : step_class St w c pl = step_layout St w c pl.
Proof.
  unfold step_layout. destruct c.
  all: cbn [class_layout].
  - (* BasePlayerCreate *)
    unfold step_class. cbn [parse_layout]. unfold get_s.
    repeat nd; reflexivity.
  - (* CellPlayerCreate *)
    destruct (s_game St) eqn:G; [| |reflexivity].
    + unfold step_class. rewrite G. cbn [parse_layout handle]. unfold get_s. rewrite ?G.
      repeat nd; reflexivity.
    + unfold step_class. rewrite G. cbn [parse_layout handle]. unfold get_s. rewrite ?G.
      repeat nd; reflexivity.
  - (* EntityControl *) unfold step_class, atomic. cbn [parse_layout handle]. unfold get_s. repeat nd; reflexivity.
  - (* EntityEnter *) unfold step_class, atomic. cbn [parse_layout handle]. unfold get_s. repeat nd; reflexivity.
  - (* EntityLeave *) unfold step_class, atomic. cbn [parse_layout handle]. unfold get_s. repeat nd; reflexivity.
  - (* EntityCreate *)
    destruct (s_game St) eqn:G; [| |reflexivity].
    + unfold step_class. rewrite G. cbn [parse_layout handle]. unfold get_s. rewrite ?G. repeat nd; reflexivity.
    + unfold step_class. rewrite G. cbn [parse_layout handle]. unfold get_s. rewrite ?G. repeat nd; reflexivity.
  - (* EntityProperty *) unfold step_class, atomic. cbn [parse_layout handle]. unfold get_u. repeat nd; reflexivity.
  - (* EntityMethod *) unfold step_class, atomic. cbn [parse_layout handle]. unfold get_u. repeat nd; reflexivity.
  - (* Position *) unfold step_class, atomic. cbn [parse_layout handle]. unfold get_s. repeat nd; reflexivity.
  - (* Version *) unfold step_class, atomic. cbn [parse_layout handle]. unfold get_s. repeat nd; reflexivity.
  - (* PlayerPosition *)
    destruct (s_game St) eqn:G; [|reflexivity|reflexivity].
    unfold step_class. cbn [parse_layout handle]. unfold get_s. repeat nd; reflexivity.
  - (* Map *)
    destruct (s_game St) eqn:G; [reflexivity| |reflexivity].
    unfold step_class, atomic, decode_map. rewrite G. cbn [parse_layout handle]. unfold get_s. repeat nd; try reflexivity.
    unfold atomic. destruct (utf8_valid _); reflexivity.
  - (* NestedProperty *) unfold step_class, atomic. cbn [parse_layout handle]. unfold get_s, get_u. repeat nd; reflexivity.
  - (* BattleStats *)
    destruct (s_game St) eqn:G; [|reflexivity|reflexivity].
    unfold step_class, atomic. cbn [parse_layout handle]. unfold get_s. repeat nd; reflexivity.
Qed.
End L.
Print Assumptions step_class_is_layout.

(* wowp: the player acts on the base-player packet and the version packet only; every other mapped class is constructed (its reader
   runs, so a short header is a struct.error) and then ignored.  The model's wowp branches are exactly "the layout parses" (plus the
   length assertion of the nested-property reader). *)
Definition wowp_ignored (c : pclass) : bool :=
  match c with EntityControl | EntityEnter | EntityLeave | EntityProperty | EntityMethod | Position => true | _ => false end.
Theorem step_wowp_is_layout St w p c L :
  s_game St = Wowp -> table_get (pk_type p) (s_table St) = Some c -> wowp_ignored c = true -> class_layout Wowp c = Some L ->
  step St w p = match parse_layout L (pk_payload p) with Ok _ => (w, None) | Err e => (w, Some e) end.
Proof.
  intros G T I HL. unfold step. rewrite T, G.
  destruct c; try discriminate I; cbn [class_layout] in HL; injection HL as <-; unfold atomic; cbn [parse_layout]; unfold get_s, get_u.
  - change 5%nat with (4 + 1)%nat. rewrite need_add. repeat nd; reflexivity.
  - change 12%nat with (4 + (4 + 4))%nat. rewrite !need_add. repeat nd; reflexivity.
  - repeat nd; reflexivity.
  - change 8%nat with (4 + 4)%nat. rewrite need_add. repeat nd; reflexivity.
  - change 8%nat with (4 + 4)%nat. rewrite need_add. repeat nd; reflexivity.
  - change 45%nat with (4 + (4 + (12 + (12 + (4 + (4 + (4 + 1)))))))%nat. rewrite !need_add. repeat nd; reflexivity.
Qed.
Theorem step_wowp_nested St w p :
  s_game St = Wowp -> table_get (pk_type p) (s_table St) = Some NestedProperty ->
  step St w p = match parse_layout [KU 4; KS 1; KU 1; KSkip 3; KRest] (pk_payload p) with
                | Ok [LN _; LZ _; LN sz; LB _; LB payload] => if N.eqb (N.of_nat (length payload)) sz then (w, None) else (w, Some EAssert)
                | Ok _ => (w, Some EOther)
                | Err e => (w, Some e)
                end.
Proof.
  intros G T. unfold step. rewrite T, G. unfold atomic. cbn [parse_layout]. unfold get_s, get_u. repeat nd; try reflexivity.
  destruct (N.eqb _ _); reflexivity.
Qed.
Print Assumptions step_wowp_is_layout.
