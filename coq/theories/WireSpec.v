(* Spec.WireSpec: the BigWorld wire encoding as property C03 states it, and typing of values *)
From RU Require Import Base Types.
Open Scope N_scope.

Definition enc_packed (n : N) : bytes := if n <? 255 then [n2b n] else xff :: le_encode 3 n.
Definition be16 (n : N) : bytes := [n2b (n / 256); n2b (n mod 256)].
Definition of_signed (w : nat) (z : Z) : N := Z.to_N (z mod 2 ^ (8 * Z.of_nat w)).

Record limits := { lim_blob : N; lim_string : N; lim_python : N; lim_count : N }.
Definition spec_limits := {| lim_blob := 2^24; lim_string := 2^24; lim_python := 2^24; lim_count := 2^24 |}.
(* the ranges on which the library's decoder agrees with the statement *)
Definition code_limits := {| lim_blob := 2^24; lim_string := 2^24; lim_python := 2^24; lim_count := 255 |}.

Definition len (b : bytes) : N := N.of_nat (length b).
Definition len_list (l : list value) : N := N.of_nat (length l).

Section Typing.
Variable L : limits.
Fixpoint has_type (t : dtype) (v : value) {struct t} : Prop :=
  match t with
  | TUInt w => match v with VInt z => (0 <= z < 256 ^ Z.of_nat w)%Z | _ => False end
  | TInt w => match v with VInt z => (0 < w)%nat /\ (- 2 ^ (8 * Z.of_nat w - 1) <= z < 2 ^ (8 * Z.of_nat w - 1))%Z | _ => False end
  | TF32 => match v with VF32 b => length b = 4%nat | _ => False end
  | TF64 => match v with VF64 b => length b = 8%nat | _ => False end
  | TVec n => match v with VVec b => length b = n | _ => False end
  | TBlob => match v with VBytes b => len b < lim_blob L | _ => False end
  | TString => match v with
               | VStr b => len b < lim_string L /\ utf8_valid b = true
               | VBytes b => len b < lim_string L /\ utf8_valid b = false
               | _ => False end
  | TPython => match v with VBytes b => len b < lim_python L | _ => False end
  | TMailbox => match v with VMail ip port => length ip = 4%nat /\ port < 65536 | _ => False end
  | TArray e sz =>
      match v with
      | VList e' l => e' = e /\ match sz with Some n => length l = n | None => len_list l < lim_count L end
                      /\ (fix all (l : list value) : Prop := match l with [] => True | x :: r => has_type e x /\ all r end) l
      | _ => False end
  | TDict fs an =>
      match v with
      | VNone => an = true
      | VDict fs' kvs => fs' = fs /\
          (fix go (fl : list (string * dtype)) (kvs : list (string * value)) : Prop :=
             match fl, kvs with
             | [], [] => True
             | (k, t') :: fl', (k', v') :: kvs' => k = k' /\ has_type t' v' /\ go fl' kvs'
             | _, _ => False
             end) fs kvs
      | _ => False end
  | TUser inner => has_type inner v
  end.
End Typing.

(* the encoder: total on typed values; returns [] on ill-typed input (never used there) *)
Fixpoint wire_encode (hdr : nat) (t : dtype) (v : value) {struct t} : bytes :=
  match t with
  | TUInt w => match v with VInt z => le_encode w (Z.to_N z) | _ => [] end
  | TInt w => match v with VInt z => le_encode w (of_signed w z) | _ => [] end
  | TF32 => match v with VF32 b => b | _ => [] end
  | TF64 => match v with VF64 b => b | _ => [] end
  | TVec _ => match v with VVec b => b | _ => [] end
  | TBlob | TPython => match v with VBytes b => enc_packed (len b) ++ b | _ => [] end
  | TString => match v with VStr b => enc_packed (len b) ++ b | VBytes b => enc_packed (len b) ++ b | _ => [] end
  | TMailbox => match v with VMail ip port => ip ++ be16 port | _ => [] end
  | TArray e sz =>
      match v with
      | VList _ l =>
          let body := (fix go (l : list value) : bytes := match l with [] => [] | x :: r => wire_encode hdr e x ++ go r end) l in
          match sz with Some _ => body | None => enc_packed (len_list l) ++ body end
      | _ => [] end
  | TDict fs an =>
      match v with
      | VNone => [x00]
      | VDict _ kvs =>
          let body := (fix go (fl : list (string * dtype)) (kvs : list (string * value)) : bytes :=
                         match fl, kvs with
                         | (_, t') :: fl', (_, v') :: kvs' => wire_encode hdr t' v' ++ go fl' kvs'
                         | _, _ => []
                         end) fs kvs in
          if an then x01 :: body else body
      | _ => [] end
  | TUser inner =>
      if is_blob inner then wire_encode hdr inner v
      else let body := wire_encode hdr inner v in le_encode hdr (len body) ++ body
  end.

(* consecutive values (method arguments) *)
Fixpoint encode_seq (hdr : nat) (ts : list dtype) (vs : list value) : bytes :=
  match ts, vs with
  | t :: tr, v :: vr => wire_encode hdr t v ++ encode_seq hdr tr vr
  | _, _ => []
  end.
