(* C08 at the level of whole histories: after ANY sequence of position and own-player position packets (any number, any ids, known or not,
   linked or not) every entity's pose is what the obvious last-writer-wins specification says - the values of the last position packet
   addressed to it, the pose copied from the named second entity at the time of the copy, its previous pose (the defaults before the first
   packet) otherwise - and nothing else about any entity changes. *)
From RU Require Import Base Types Defs BitReader World WireSpec TypesProofs LwwProofs PlayerProofs CreateProofs PoseProofs.
From Coq Require Import Lia.
Open Scope N_scope.
Local Open Scope string_scope.

(* a pose: position, yaw, pitch, roll; None = the definition's default *)
Definition pose := (option bytes * option bytes * option bytes * option bytes)%type.
Definition pose_of_entity (e : entity) : option pose :=
  match assoc_get "position" (en_vol e), assoc_get "yaw" (en_vol e), assoc_get "pitch" (en_vol e), assoc_get "roll" (en_vol e) with
  | Some p, Some y, Some pi, Some r => Some (p, y, pi, r)
  | _, _, _, _ => None
  end.
Definition pabs (w : world) (id : Z) : option pose :=
  match zassoc_get id (w_entities w) with Some e => pose_of_entity e | None => None end.
(* every entity carries the four pose components (its type declares them volatile) *)
Definition full (w : world) : Prop := forall i e, zassoc_get i (w_entities w) = Some e -> pose_of_entity e <> None.

Inductive ppkt :=
| PPos (id : Z) (veh pos poserr yaw pitch roll : bytes) (flag : byte)
| POwn (e1 e2 : Z) (pos yaw pitch roll : bytes).
Definition wf_ppkt (p : ppkt) : Prop :=
  match p with
  | PPos id veh pos poserr y pi r _ => in_i32 id /\ length veh = 4%nat /\ length poserr = 12%nat /\ wf_pose pos y pi r
  | POwn e1 e2 pos y pi r => in_i32 e1 /\ in_i32 e2 /\ wf_pose pos y pi r
  end.
Definition enc_ppkt (p : ppkt) : pclass * bytes :=
  match p with
  | PPos id veh pos poserr y pi r f => (Position, enc_position id veh pos poserr y pi r f)
  | POwn e1 e2 pos y pi r => (PlayerPosition, enc_player_position e1 e2 pos y pi r)
  end.

(* the specification: a partial map id -> pose *)
Definition pupd (s : Z -> option pose) (id : Z) (p : pose) : Z -> option pose := fun j => if Z.eqb j id then Some p else s j.
Definition spec_pstep (s : Z -> option pose) (p : ppkt) : Z -> option pose :=
  match p with
  | PPos id _ pos _ y pi r _ => match s id with Some _ => pupd s id (Some pos, Some y, Some pi, Some r) | None => s end
  | POwn e1 e2 pos y pi r =>
      if Z.eqb e2 0 then
        (if Z.eqb e1 0 then s else match s e1 with Some _ => pupd s e1 (Some pos, Some y, Some pi, Some r) | None => s end)
      else match s e2, s e1 with Some m, Some _ => pupd s e1 m | _, _ => s end
  end.
Definition psame (a b : Z -> option pose) : Prop := forall i, a i = b i.

Lemma psame_pstep a b p : psame a b -> psame (spec_pstep a p) (spec_pstep b p).
Proof.
  intros H. destruct p as [id veh pos poserr y pi r f|e1 e2 pos y pi r]; cbn [spec_pstep].
  - rewrite (H id). destruct (b id); [|exact H]. intros j. unfold pupd. destruct (Z.eqb j id); [reflexivity|apply H].
  - destruct (Z.eqb e2 0).
    + destruct (Z.eqb e1 0); [exact H|]. rewrite (H e1). destruct (b e1); [|exact H]. intros j. unfold pupd. destruct (Z.eqb j e1); [reflexivity|apply H].
    + rewrite (H e2), (H e1). destruct (b e2); [|exact H]. destruct (b e1); [|exact H]. intros j. unfold pupd. destruct (Z.eqb j e1); [reflexivity|apply H].
Qed.

(* the four components after four assignments *)
Lemma pose_of_set4 e p y pi r :
  pose_of_entity (set_vol (set_vol (set_vol (set_vol e "position" p) "yaw" y) "pitch" pi) "roll" r) = Some (p, y, pi, r).
Proof.
  unfold pose_of_entity, set_vol. cbn [en_vol].
  rewrite (assoc_get_set_other "roll" "position"), (assoc_get_set_other "pitch" "position"), (assoc_get_set_other "yaw" "position"), assoc_get_set_same by discriminate.
  rewrite (assoc_get_set_other "roll" "yaw"), (assoc_get_set_other "pitch" "yaw"), assoc_get_set_same by discriminate.
  rewrite (assoc_get_set_other "roll" "pitch"), assoc_get_set_same by discriminate.
  rewrite assoc_get_set_same. reflexivity.
Qed.

Lemma pabs_put w e i : ids_ok w -> pabs (put w e) i = if Z.eqb i (en_id e) then pose_of_entity e else pabs w i.
Proof.
  intros _. unfold pabs, put. cbn [w_entities]. destruct (Z.eqb_spec i (en_id e)) as [->|Hne].
  - rewrite zassoc_get_set_same. reflexivity.
  - rewrite zassoc_get_set_other by congruence. reflexivity.
Qed.
Lemma full_put w e : full w -> pose_of_entity e <> None -> full (put w e).
Proof.
  intros Hf He i en. unfold put. cbn [w_entities]. destruct (Z.eq_dec (en_id e) i) as [<-|Hne].
  - rewrite zassoc_get_set_same. intros H; inversion H; subst. exact He.
  - rewrite zassoc_get_set_other by exact Hne. apply Hf.
Qed.

(* what does not concern the pose: type and the three property tables of every entity *)
Definition rest_of (w : world) (id : Z) := option_map (fun e => (en_type e, en_client e, en_base e, en_cell e)) (zassoc_get id (w_entities w)).
Lemma rest_put_set4 w e p y pi r i : zassoc_get (en_id e) (w_entities w) = Some e ->
  rest_of (put w (set_vol (set_vol (set_vol (set_vol e "position" p) "yaw" y) "pitch" pi) "roll" r)) i = rest_of w i.
Proof.
  intros He. unfold rest_of, put. cbn [w_entities en_id set_vol]. destruct (Z.eq_dec (en_id e) i) as [<-|Hne].
  - rewrite zassoc_get_set_same, He. reflexivity.
  - rewrite zassoc_get_set_other by exact Hne. reflexivity.
Qed.

Section H.
Variable St : setup.

Lemma own_player_zero w pos y pi r : wf_pose pos y pi r ->
  step_class St w PlayerPosition (enc_player_position 0 0 pos y pi r) = (w, None).
Proof.
  intros Hwf. cbn [step_class]. rewrite pp_parse; [|unfold in_i32; lia|unfold in_i32; lia|exact Hwf]. reflexivity.
Qed.

(* one packet *)
Lemma pose_step w p :
  ids_ok w -> full w -> wf_ppkt p ->
  let w' := fst (step_class St w (fst (enc_ppkt p)) (snd (enc_ppkt p))) in
  ids_ok w' /\ full w' /\ psame (pabs w') (spec_pstep (pabs w) p) /\ (forall i, rest_of w' i = rest_of w i) /\
  w_player w' = w_player w /\ w_map w' = w_map w /\ w_trace w' = w_trace w.
Proof.
  intros Hok Hf Hwf.
  assert (Same : forall s, ids_ok w /\ full w /\ psame (pabs w) s /\ (forall i, rest_of w i = rest_of w i) /\ w_player w = w_player w /\ w_map w = w_map w /\ w_trace w = w_trace w
                 <-> psame (pabs w) s).
  { intros s. split; [intros (_ & _ & H & _); exact H|intros H; repeat split; auto]. }
  assert (Set4 : forall e id p4 y4 pi4 r4, zassoc_get id (w_entities w) = Some e ->
             let w' := put w (set_vol (set_vol (set_vol (set_vol e "position" p4) "yaw" y4) "pitch" pi4) "roll" r4) in
             ids_ok w' /\ full w' /\ psame (pabs w') (pupd (pabs w) id (p4, y4, pi4, r4)) /\ (forall i, rest_of w' i = rest_of w i) /\
             w_player w' = w_player w /\ w_map w' = w_map w /\ w_trace w' = w_trace w).
  { intros e id p4 y4 pi4 r4 Hg w'. assert (Eid : en_id e = id) by (apply Hok; exact Hg). subst w'.
    split; [apply ids_ok_put; exact Hok|]. split; [apply full_put; [exact Hf|rewrite pose_of_set4; discriminate]|].
    split; [|split; [|repeat split]].
    - intros i. rewrite pabs_put by exact Hok. cbn [en_id set_vol]. rewrite Eid. unfold pupd. destruct (Z.eqb i id); [apply pose_of_set4|reflexivity].
    - intros i. apply rest_put_set4. rewrite Eid. exact Hg. }
  destruct p as [id veh pos poserr y pi r f|e1 e2 pos y pi r]; cbn [enc_ppkt fst snd spec_pstep wf_ppkt] in *.
  - destruct Hwf as (Hid & Hv & Hpe & Hwp).
    destruct (zassoc_get id (w_entities w)) as [e|] eqn:Hg.
    + rewrite (position_sets_pose St w id e veh pos poserr y pi r f Hid Hv Hpe Hwp Hg). cbn [fst]. unfold set_pose.
      unfold pabs at 2. rewrite Hg. destruct (pose_of_entity e) eqn:Pe; [|exfalso; exact (Hf id e Hg Pe)].
      apply (Set4 e id (Some pos) (Some y) (Some pi) (Some r) Hg).
    + rewrite (position_unknown St w id veh pos poserr y pi r f Hid Hv Hpe Hwp Hg). cbn [fst].
      apply Same. intros i. unfold pabs at 2. rewrite Hg. reflexivity.
  - destruct Hwf as (H1 & H2 & Hwp).
    destruct (Z.eqb_spec e2 0) as [->|Hne2].
    + destruct (Z.eqb_spec e1 0) as [->|Hne1].
      * rewrite (own_player_zero w pos y pi r Hwp). cbn [fst]. apply Same. intros i; reflexivity.
      * destruct (zassoc_get e1 (w_entities w)) as [e|] eqn:Hg.
        -- rewrite (own_player_no_second St w e1 e pos y pi r H1 Hne1 Hwp Hg). cbn [fst]. unfold set_pose.
           unfold pabs at 2. rewrite Hg. destruct (pose_of_entity e) eqn:Pe; [|exfalso; exact (Hf e1 e Hg Pe)].
           apply (Set4 e e1 (Some pos) (Some y) (Some pi) (Some r) Hg).
        -- rewrite (own_player_unknown St w e1 0 pos y pi r H1 H2 Hwp); [|cbn [Z.eqb]; exact Hg]. cbn [fst].
           apply Same. intros i. unfold pabs at 2. rewrite Hg. reflexivity.
    + destruct (zassoc_get e2 (w_entities w)) as [m|] eqn:Hm.
      * destruct (zassoc_get e1 (w_entities w)) as [s1|] eqn:Hs.
        -- pose proof (Hf e2 m Hm) as Fm. unfold pose_of_entity in Fm.
           destruct (assoc_get "position" (en_vol m)) as [p4|] eqn:Gp; [|contradiction].
           destruct (assoc_get "yaw" (en_vol m)) as [y4|] eqn:Gy; [|contradiction].
           destruct (assoc_get "pitch" (en_vol m)) as [pi4|] eqn:Gpi; [|contradiction].
           destruct (assoc_get "roll" (en_vol m)) as [r4|] eqn:Gr; [|contradiction].
           rewrite (own_player_with_second St w e1 e2 s1 m pos y pi r p4 y4 pi4 r4 H1 H2 Hne2 Hwp Hs Hm Gp Gy Gpi Gr). cbn [fst].
           unfold pabs at 2 3. rewrite Hm, Hs. unfold pose_of_entity at 1. rewrite Gp, Gy, Gpi, Gr.
           destruct (pose_of_entity s1) eqn:Ps; [|exfalso; exact (Hf e1 s1 Hs Ps)].
           apply (Set4 s1 e1 p4 y4 pi4 r4 Hs).
        -- rewrite (own_player_unknown St w e1 e2 pos y pi r H1 H2 Hwp).
           ++ cbn [fst]. apply Same. intros i. unfold pabs at 2 3. rewrite Hm, Hs. destruct (pose_of_entity m); reflexivity.
           ++ destruct (Z.eqb_spec e2 0); [contradiction|]. right. exact Hs.
      * rewrite (own_player_unknown St w e1 e2 pos y pi r H1 H2 Hwp).
        -- cbn [fst]. apply Same. intros i. unfold pabs at 2. rewrite Hm. reflexivity.
        -- destruct (Z.eqb_spec e2 0); [contradiction|]. left. exact Hm.
Qed.

(* ANY history of pose packets *)
Theorem pose_history : forall ps w s,
  ids_ok w -> full w -> Forall wf_ppkt ps -> psame (pabs w) s ->
  let w' := play_packets St w (map enc_ppkt ps) in
  ids_ok w' /\ full w' /\ psame (pabs w') (fold_left spec_pstep ps s) /\ (forall i, rest_of w' i = rest_of w i) /\
  w_player w' = w_player w /\ w_map w' = w_map w /\ w_trace w' = w_trace w.
Proof.
  induction ps as [|p ps IH]; intros w s Hok Hf Hwf Hs; cbn [map fold_left play_packets].
  - repeat split; auto.
  - inversion Hwf as [|? ? Hp Hps]; subst.
    destruct (pose_step w p Hok Hf Hp) as (Hok1 & Hf1 & Hs1 & Hr1 & Hp1 & Hm1 & Ht1).
    unfold play_packets in *. cbn [fold_left].
    destruct (IH _ (spec_pstep s p) Hok1 Hf1 Hps) as (Hok2 & Hf2 & Hs2 & Hr2 & Hp2 & Hm2 & Ht2).
    { intros i. rewrite Hs1. apply psame_pstep. exact Hs. }
    split; [exact Hok2|]. split; [exact Hf2|]. split; [exact Hs2|]. split; [intros i; rewrite Hr2; apply Hr1|].
    split; [congruence|]. split; congruence.
Qed.
End H.
Print Assumptions pose_history.
