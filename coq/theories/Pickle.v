(* Model.Pickle: a capability abstraction of CPython's unpickler (pickle.loads as the bundled controllers call it).
   What matters for C18 is WHICH callables a pickle can make the process invoke: a callable can only enter the
   unpickler's stack through find_class (opcodes GLOBAL / STACK_GLOBAL / INST / OBJ with a class) or as the result of
   an earlier call.  Definitions only. *)
From RU Require Import Base.
Open Scope string_scope.

Definition gname := (string * string)%type.       (* (module, qualified name) as handed to find_class *)
Inductive item :=
| IData                     (* plain data built by the data opcodes *)
| IFrom (g : gname).        (* a callable obtained from find_class g, or whatever a call rooted at g returned *)

Inductive op :=
| OPush                     (* any data-only opcode: ints, strings, bytes, containers, memo get/put, MARK ... *)
| OPop
| OGlobal (g : gname)       (* GLOBAL / STACK_GLOBAL: push find_class(module, name) *)
| OReduce                   (* REDUCE: the callable applied to the argument tuple *)
| ONewObj                   (* NEWOBJ / NEWOBJ_EX: cls.__new__ applied to cls and the arguments *)
| OBuild                    (* BUILD: obj.__setstate__(state) or __dict__ update *)
| OInst (g : gname).        (* INST / OBJ: find_class + instantiate *)

Record machine := { stack : list item; calls : list gname }.
Definition init : machine := {| stack := []; calls := [] |}.

Section Policy.
Variable policy : gname -> bool.      (* Unpickler.find_class: which globals it hands out (pickle.loads: every importable one) *)

Definition step (m : machine) (o : op) : option machine :=
  match o with
  | OPush => Some {| stack := IData :: stack m; calls := calls m |}
  | OPop => match stack m with _ :: r => Some {| stack := r; calls := calls m |} | [] => None end
  | OGlobal g => if policy g then Some {| stack := IFrom g :: stack m; calls := calls m |} else None
  | OInst g => if policy g then Some {| stack := IFrom g :: stack m; calls := calls m ++ [g] |} else None
  | OReduce | ONewObj =>
      match stack m with
      | _ :: IFrom g :: r => Some {| stack := IFrom g :: r; calls := calls m ++ [g] |}
      | _ => None                                   (* data is not callable: TypeError *)
      end
  | OBuild =>
      match stack m with
      | _ :: IFrom g :: r => Some {| stack := IFrom g :: r; calls := calls m ++ [g] |}     (* __setstate__ of an object rooted at g *)
      | _ :: IData :: r => Some {| stack := IData :: r; calls := calls m |}
      | _ => None
      end
  end.
Fixpoint run (m : machine) (ops : list op) : machine :=
  match ops with
  | [] => m
  | o :: r => match step m o with Some m' => run m' r | None => m end      (* an error stops the unpickler; the calls already made remain made *)
  end.
End Policy.
