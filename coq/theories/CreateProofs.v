(* C05, byte level: an entity-creation packet IS the creation event - the entity the packet names, of the type its index names, with
   exactly the property values its state block carries (a partial set, in packet order, later duplicates overwriting earlier ones). *)
From RU Require Import Base Types Defs BitReader World WireSpec TypesProofs LwwProofs.
From Coq Require Import Lia.
Open Scope N_scope.

Section Create.
Variable St : setup.

(* the property loop of the EntityCreate branch of [step_class], as a top-level function (the same term) *)
Definition create_go (m : emodel) :=
  fix go (n : nat) (e : entity) (bs : bytes) (cs : list call) : list call * result (entity * bytes) :=
    match n with
    | O => (cs, Ok (e, bs))
    | S n' =>
      match get_u 1 bs with
      | Err er => (cs, Err er)
      | Ok (idx, b1) =>
        match nth_error (e_client m) (N.to_nat idx) with
        | None => (cs, Err EIndex)
        | Some p => match decode 1 (p_type p) b1 with
                    | Err er => (cs, Err er)
                    | Ok (v, b2) => go n' (set_client e (p_name p) v) b2 (cs ++ prop_calls St e (p_name p) v)%list
                    end
        end
      end
    end.

Lemma step_create_unfold w pl :
  step_class St w EntityCreate pl =
  match (
    '(id, r1) <- get_s 4 pl ;; '(et, r2) <- get_s 2 r1 ;; '(_, r3) <- need 8 r2 ;; '(_, r4) <- need 24 r3 ;;
    r5 <- (match s_game St with Wot => '(_, r) <- need 4 r4 ;; Ok r | _ => Ok r4 end) ;;
    '(val, _) <- binstream r5 ;;
    name <- (match entity_by_index (s_names St) et with Some n => Ok n | None => Err EKey end) ;;
    e <- new_entity St id name ;;
    m <- model_of St name ;;
    '(cnt, v1) <- get_u 1 val ;;
    Ok (e, m, cnt, v1)) with
  | Err er => (w, Some er)
  | Ok (e, m, cnt, v1) =>
    match create_go m (N.to_nat cnt) e v1 [] with
    | (cs, Ok (e', [])) => (log (put w e') cs, None)
    | (cs, Ok (_, _ :: _)) => (log w cs, Some EAssert)
    | (cs, Err er) => (log w cs, Some er)
    end
  end.
Proof. reflexivity. Qed.

(* one state item: exposed index byte, then the value in the wire format of that property's type *)
Definition enc_item (it : N * prop * value) : bytes :=
  let '(idx, p, v) := it in n2b idx :: wire_encode 1 (p_type p) v.
Definition item_ok (m : emodel) (it : N * prop * value) : Prop :=
  let '(idx, p, v) := it in idx < 256 /\ nth_error (e_client m) (N.to_nat idx) = Some p /\ has_type code_limits (p_type p) v.

Lemma create_go_items m : forall items e rest cs, Forall (item_ok m) items ->
  exists cs', create_go m (length items) e (flat_map enc_item items ++ rest) cs =
              (cs', Ok (fold_left (fun en it => set_client en (p_name (snd (fst it))) (snd it)) items e, rest)).
Proof.
  induction items as [|[[idx p] v] r IH]; intros e rest cs HF.
  - exists cs. reflexivity.
  - inversion HF as [|x l Hit HF']; subst. destruct Hit as (Hidx & Hnth & Hty).
    cbn [length flat_map enc_item]. rewrite <- app_assoc. cbn [app create_go].
    rewrite get_u1_cons. rewrite b2n_n2b by exact Hidx. rewrite Hnth.
    rewrite (decode_wire_encode_partial (p_type p) 1 v _ Hty).
    destruct (IH (set_client e (p_name p) v) rest (cs ++ prop_calls St e (p_name p) v)%list HF') as (cs' & Hgo).
    exists cs'. exact Hgo.
Qed.

Lemma fold_left_map_gen {A B C} (f : A -> C -> A) (g : B -> C) : forall l a, fold_left f (map g l) a = fold_left (fun a x => f a (g x)) l a.
Proof. induction l as [|x r IH]; intros a; [reflexivity|]. cbn. apply IH. Qed.

Definition enc_create (id et : Z) (pad extra : bytes) (items : list (N * prop * value)) : bytes :=
  let state := n2b (N.of_nat (length items)) :: flat_map enc_item items in
  (le_encode 4 (of_signed 4 id) ++ le_encode 2 (of_signed 2 et) ++ pad ++ extra ++ le_encode 4 (N.of_nat (length state)) ++ state)%list.

Theorem create_packet_is_event w id et pad extra items name m :
  (- 2 ^ 31 <= id < 2 ^ 31)%Z -> (- 2 ^ 15 <= et < 2 ^ 15)%Z -> length pad = 32%nat ->
  length extra = (match s_game St with Wot => 4 | _ => 0 end)%nat ->
  (length items < 256)%nat -> N.of_nat (S (length (flat_map enc_item items))) < 2 ^ 32 ->
  entity_by_index (s_names St) et = Some name -> assoc_get name (s_models St) = Some m ->
  Forall (item_ok m) items ->
  snd (step_class St w EntityCreate (enc_create id et pad extra items)) = None /\
  w_entities (fst (step_class St w EntityCreate (enc_create id et pad extra items))) =
  w_entities (conc_step (fun _ => map (fun t => (t, None)) (e_vol m)) w
                (EvCreate id name (map (fun it => (p_name (snd (fst it)), snd it)) items))).
Proof.
  intros Hid Het Hpad Hextra Hcnt Hlen Hname Hm HF.
  rewrite step_create_unfold. unfold enc_create.
  rewrite get_s_app by (lia || (cbn; lia)). cbn [bind].
  rewrite get_s_app by (lia || (cbn; lia)). cbn [bind].
  assert (Hp : exists p8 p24, pad = (p8 ++ p24)%list /\ length p8 = 8%nat /\ length p24 = 24%nat).
  { exists (firstn 8 pad), (skipn 8 pad). rewrite firstn_skipn, firstn_length, skipn_length. repeat split; lia. }
  destruct Hp as (p8 & p24 & -> & H8 & H24). rewrite <- !app_assoc.
  rewrite (need_app 8 p8) by exact H8. cbn [bind].
  rewrite (need_app 24 p24) by exact H24. cbn [bind].
  destruct (s_game St); [destruct extra; [|discriminate] | rewrite (need_app 4 extra) by exact Hextra | destruct extra; [|discriminate]]; cbn [app bind].
  all: unfold binstream; rewrite (get_u_app 4) by (change (256 ^ N.of_nat 4) with (2 ^ 32); cbn [length]; exact Hlen); cbn [bind];
  rewrite read_uptoN_all; cbn [bind]; rewrite Hname; cbn [bind];
  unfold new_entity, model_of; rewrite Hm; cbn [bind];
  rewrite get_u1_cons; cbn [bind]; rewrite b2n_n2b by lia; rewrite Nat2N.id;
  destruct (create_go_items m items {| en_id := id; en_type := name; en_client := []; en_base := []; en_cell := [];
                                         en_vol := map (fun t => (t, None)) (e_vol m) |} [] [] HF) as (cs' & Hgo);
  rewrite app_nil_r in Hgo; rewrite Hgo; cbn [fst snd]; (split; [reflexivity|]);
  cbn [log w_entities conc_step]; unfold mk_entity; f_equal; f_equal;
  rewrite fold_left_map_gen; reflexivity.
Qed.

(* ---- whole packet histories: creation and property-update packets, in any order and number, refine the last-writer-wins spec ---- *)
Definition vol_of (name : string) : list (string * option bytes) :=
  match assoc_get name (s_models St) with Some m => map (fun t => (t, None)) (e_vol m) | None => [] end.

Definition play_packets (w : world) (pkts : list (pclass * bytes)) : world :=
  fold_left (fun w cp => fst (step_class St w (fst cp) (snd cp))) pkts w.

(* a packet history together with the events it denotes; every hypothesis speaks about the world REACHED when the packet arrives *)
Inductive replays : world -> list (pclass * bytes) -> list ev -> Prop :=
| rp_nil w : replays w [] []
| rp_create w id et pad extra items name m rest evs :
    (- 2 ^ 31 <= id < 2 ^ 31)%Z -> (- 2 ^ 15 <= et < 2 ^ 15)%Z -> length pad = 32%nat ->
    length extra = (match s_game St with Wot => 4 | _ => 0 end)%nat ->
    (length items < 256)%nat -> N.of_nat (S (length (flat_map enc_item items))) < 2 ^ 32 ->
    entity_by_index (s_names St) et = Some name -> assoc_get name (s_models St) = Some m ->
    Forall (item_ok m) items ->
    replays (fst (step_class St w EntityCreate (enc_create id et pad extra items))) rest evs ->
    replays w ((EntityCreate, enc_create id et pad extra items) :: rest)
              (EvCreate id name (map (fun it => (p_name (snd (fst it)), snd it)) items) :: evs)
| rp_update w id pid val e m p v r rest evs :
    id < 2 ^ 32 -> pid < 2 ^ 32 -> N.of_nat (length val) < 2 ^ 32 ->
    zassoc_get (Z.of_N id) (w_entities w) = Some e -> assoc_get (en_type e) (s_models St) = Some m ->
    nthN (e_client m) pid = Some p -> decode 1 (p_type p) val = Ok (v, r) ->
    replays (fst (step_class St w EntityProperty (enc_update id pid val))) rest evs ->
    replays w ((EntityProperty, enc_update id pid val) :: rest) (EvUpdate (Z.of_N id) (p_name p) v :: evs)
| rp_update_unknown w id pid val rest evs :
    id < 2 ^ 32 -> pid < 2 ^ 32 -> N.of_nat (length val) < 2 ^ 32 ->
    zassoc_get (Z.of_N id) (w_entities w) = None ->
    replays w rest evs ->
    replays w ((EntityProperty, enc_update id pid val) :: rest) evs.

Lemma abs_entities w1 w2 : w_entities w1 = w_entities w2 -> abs w1 = abs w2.
Proof. intros H. unfold abs. rewrite H. reflexivity. Qed.
Lemma ids_ok_entities w1 w2 : w_entities w1 = w_entities w2 -> ids_ok w1 -> ids_ok w2.
Proof. intros H Hok i en. rewrite <- H. apply Hok. Qed.

Theorem packets_refine_spec : forall w pkts evs, replays w pkts evs -> forall s,
  ids_ok w -> same (abs w) s ->
  ids_ok (play_packets w pkts) /\ same (abs (play_packets w pkts)) (fold_left spec_step evs s).
Proof.
  induction 1 as [w
                 |w id et pad extra items name m rest evs Hid Het Hpad Hextra Hcnt Hlen Hname Hm HF Hrest IH
                 |w id pid val e m p v r rest evs Hid Hpid Hlen He Hm Hp Hd Hrest IH
                 |w id pid val rest evs Hid Hpid Hlen He Hrest IH]; intros s Hok Hs.
  - split; assumption.
  - cbn [play_packets fold_left fst snd].
    destruct (create_packet_is_event w id et pad extra items name m Hid Het Hpad Hextra Hcnt Hlen Hname Hm HF) as [_ Hent].
    set (ev0 := EvCreate id name (map (fun it => (p_name (snd (fst it)), snd it)) items)) in *.
    destruct (step_refines (fun _ => map (fun t => (t, None)) (e_vol m)) w s ev0 Hok Hs) as [Hok1 Hs1].
    apply IH.
    + apply (ids_ok_entities _ _ (eq_sym Hent) Hok1).
    + rewrite (abs_entities _ _ Hent). exact Hs1.
  - cbn [play_packets fold_left fst snd].
    destruct (update_packet_is_event St w id pid val e m p v r Hid Hpid Hlen He Hm Hp Hd Hok) as [_ Hent].
    destruct (step_refines (fun _ => []) w s (EvUpdate (Z.of_N id) (p_name p) v) Hok Hs) as [Hok1 Hs1].
    apply IH.
    + apply (ids_ok_entities _ _ (eq_sym Hent) Hok1).
    + rewrite (abs_entities _ _ Hent). exact Hs1.
  - cbn [play_packets fold_left fst snd].
    rewrite (update_packet_unknown_entity St w id pid val Hid Hpid Hlen He). cbn [fst]. apply IH; assumption.
Qed.
End Create.
Print Assumptions create_packet_is_event.
Print Assumptions packets_refine_spec.
