(* C06 at the level of whole histories: after ANY sequence of nested-property payloads applied to an entity - set an element, set a dict
   field, replace / insert / delete a slice, at any depth below any client property, in any order - the client properties of the entity are
   the fold of the corresponding ordinary list / dict updates, and nothing else about the entity changes. *)
From RU Require Import Base Types Defs BitReader World WireSpec TypesProofs LwwProofs NestedProofs NestedGlue NestedDict.
From Coq Require Import Lia.
Open Scope N_scope.

(* one nested operation, as the statement describes it *)
Inductive nop :=
| NSetElem (pid : nat) (pth : list nat) (i : nat) (x : value)
| NSetField (pid : nat) (pth : list nat) (i : nat) (x : value)
| NSlice (pid : nat) (pth : list nat) (i j : nat) (xs : list value).

(* what the operation does to ordinary lists and dicts: the addressed sub-value of the addressed property is replaced *)
Definition new_leaf (leaf : value) (o : nop) : option value :=
  match o, leaf with
  | NSetElem _ _ i x, VList et l => Some (VList et (replace_nth i x l))
  | NSetField _ _ i x, VDict fs kvs => match nth_error fs i with Some (fname, _) => Some (VDict fs (assoc_set fname x kvs)) | None => None end
  | NSlice _ _ i j xs, VList et l => Some (VList et (slice_assign i j xs l))
  | _, _ => None
  end.
Definition nop_pid (o : nop) := match o with NSetElem p _ _ _ | NSetField p _ _ _ | NSlice p _ _ _ _ => p end.
Definition nop_path (o : nop) := match o with NSetElem _ p _ _ | NSetField _ p _ _ | NSlice _ p _ _ _ => p end.
Definition spec_nop (m : emodel) (client : list (string * value)) (o : nop) : list (string * value) :=
  match nth_error (e_client m) (nop_pid o) with
  | Some p => match assoc_get (p_name p) client with
              | Some top => match leaf_of top (nop_path o) with
                            | Some leaf => match new_leaf leaf o with
                                           | Some nl => assoc_set (p_name p) (update_at (nop_path o) nl top) client
                                           | None => client end
                            | None => client end
              | None => client end
  | None => client
  end.

Section NH.
Variable St : setup.
Variable m : emodel.

(* the payload of an operation in the state the entity is in (bit fields as the statement says, then the element data) and the side
   conditions under which the statement speaks about it *)
Inductive payload_of (e : entity) : nop -> bool -> bytes -> Prop :=
| po_elem pid p top pth pbits et l i x :
    nth_error (e_client m) pid = Some p -> assoc_get (p_name p) (en_client e) = Some top ->
    encode_path top pth = Some pbits -> leaf_of top pth = Some (VList et l) ->
    (i < length l)%nat -> has_type code_limits et x -> wire_encode 1 et x <> [] ->
    payload_of e (NSetElem pid pth i x) false
      (pack_bits (to_bits 1 1 ++ to_bits (bits_required (length (e_client m))) (N.of_nat pid) ++ pbits
                  ++ to_bits (bits_required (length l)) (N.of_nat i)) ++ wire_encode 1 et x)
| po_field pid p top pth pbits fs kvs i fname ftype x :
    nth_error (e_client m) pid = Some p -> assoc_get (p_name p) (en_client e) = Some top ->
    encode_path top pth = Some pbits -> leaf_of top pth = Some (VDict fs kvs) ->
    (i < length kvs)%nat -> nth_error fs i = Some (fname, ftype) -> has_type code_limits ftype x ->
    payload_of e (NSetField pid pth i x) false
      (pack_bits (to_bits 1 1 ++ to_bits (bits_required (length (e_client m))) (N.of_nat pid) ++ pbits
                  ++ to_bits (bits_required (length kvs)) (N.of_nat i)) ++ wire_encode 1 ftype x)
| po_slice pid p top pth pbits et l i j xs :
    nth_error (e_client m) pid = Some p -> assoc_get (p_name p) (en_client e) = Some top ->
    encode_path top pth = Some pbits -> leaf_of top pth = Some (VList et l) ->
    N.of_nat i < 2 ^ N.of_nat (bits_required (length l + 1)) -> N.of_nat j < 2 ^ N.of_nat (bits_required (length l + 1)) ->
    Forall (fun x => has_type code_limits et x /\ wire_encode 1 et x <> []) xs ->
    payload_of e (NSlice pid pth i j xs) true
      (pack_bits (to_bits 1 1 ++ to_bits (bits_required (length (e_client m))) (N.of_nat pid) ++ pbits
                  ++ to_bits (bits_required (length l + 1)) (N.of_nat i) ++ to_bits (bits_required (length l + 1)) (N.of_nat j))
       ++ encode_many et xs).

(* one operation: the model applies the payload as the ordinary update *)
Lemma nested_op_step e o sl pl : payload_of e o sl pl ->
  exists e' cs, nested_apply St e m sl pl = Ok (e', cs) /\ en_client e' = spec_nop m (en_client e) o /\
                en_base e' = en_base e /\ en_cell e' = en_cell e /\ en_vol e' = en_vol e /\ en_id e' = en_id e /\ en_type e' = en_type e.
Proof.
  intros H. destruct H as [pid p top pth pbits et l i x Hp Htop Hpath Hleaf Hi Hx Hne
                          |pid p top pth pbits fs kvs i fname ftype x Hp Htop Hpath Hleaf Hi Hf Hx
                          |pid p top pth pbits et l i j xs Hp Htop Hpath Hleaf Hi Hj Hxs].
  - destruct (nested_set_list_element St e m pid p top pth pbits et l i x Hp Htop Hpath Hleaf Hi Hx Hne) as [cs E].
    eexists; exists cs. split; [exact E|]. split; [|repeat split].
    unfold spec_nop. cbn [nop_pid nop_path]. rewrite Hp, Htop, Hleaf. cbn [new_leaf]. reflexivity.
  - destruct (nested_set_dict_field St e m pid p top pth pbits fs kvs i fname ftype x Hp Htop Hpath Hleaf Hi Hf Hx) as [cs E].
    eexists; exists cs. split; [exact E|]. split; [|repeat split].
    unfold spec_nop. cbn [nop_pid nop_path]. rewrite Hp, Htop, Hleaf. cbn [new_leaf]. rewrite Hf. reflexivity.
  - destruct (nested_slice_list St e m pid p top pth pbits et l i j xs Hp Htop Hpath Hleaf Hi Hj Hxs) as [cs E].
    eexists; exists cs. split; [exact E|]. split; [|repeat split].
    unfold spec_nop. cbn [nop_pid nop_path]. rewrite Hp, Htop, Hleaf. cbn [new_leaf]. reflexivity.
Qed.

(* a history: every payload is the encoding of its operation in the state REACHED when it arrives *)
Inductive nhistory : entity -> list (nop * bool * bytes) -> Prop :=
| nh_nil e : nhistory e []
| nh_cons e o sl pl rest :
    payload_of e o sl pl ->
    (forall e' cs, nested_apply St e m sl pl = Ok (e', cs) -> nhistory e' rest) ->
    nhistory e ((o, sl, pl) :: rest).

Fixpoint run_nested (e : entity) (h : list (nop * bool * bytes)) : result entity :=
  match h with
  | [] => Ok e
  | (_, sl, pl) :: r => match nested_apply St e m sl pl with Ok (e', _) => run_nested e' r | Err er => Err er end
  end.

Theorem nested_history : forall h e, nhistory e h ->
  exists e', run_nested e h = Ok e' /\
             en_client e' = fold_left (spec_nop m) (map (fun x => fst (fst x)) h) (en_client e) /\
             en_base e' = en_base e /\ en_cell e' = en_cell e /\ en_vol e' = en_vol e /\ en_id e' = en_id e /\ en_type e' = en_type e.
Proof.
  induction h as [|[[o sl] pl] r IH]; intros e H.
  - exists e. repeat split.
  - inversion H as [|? ? ? ? ? Hp Hr]; subst.
    destruct (nested_op_step e o sl pl Hp) as (e1 & cs & E & Hc & Hb & Hce & Hv & Hi & Ht).
    destruct (IH e1 (Hr e1 cs E)) as (e2 & R & Hc2 & Hb2 & Hce2 & Hv2 & Hi2 & Ht2).
    exists e2. cbn [run_nested map fold_left fst]. rewrite E. split; [exact R|]. split; [rewrite Hc2, Hc; reflexivity|].
    repeat split; congruence.
Qed.
End NH.
Print Assumptions nested_history.
