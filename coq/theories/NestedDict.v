(* C06 end to end, FIXED_DICT leaf: payload bytes -> "set one field of a fixed dict at any depth" *)
From RU Require Import Base Types Defs BitReader World WireSpec TypesProofs BitReaderProofs NestedProofs NestedGlue.
From Coq Require Import Lia.
Open Scope N_scope.

Section DictLeaf.
Variable St : setup.
Theorem nested_set_dict_field e m pid p top pth pbits fs kvs i fname ftype x :
  nth_error (e_client m) pid = Some p -> assoc_get (p_name p) (en_client e) = Some top ->
  encode_path top pth = Some pbits -> leaf_of top pth = Some (VDict fs kvs) ->
  (i < length kvs)%nat -> nth_error fs i = Some (fname, ftype) -> has_type code_limits ftype x ->
  let bits := (to_bits 1 1 ++ to_bits (bits_required (length (e_client m))) (N.of_nat pid) ++ pbits
               ++ to_bits (bits_required (length kvs)) (N.of_nat i))%list in
  exists cs, nested_apply St e m false (pack_bits bits ++ wire_encode 1 ftype x) =
             Ok (set_client e (p_name p) (update_at pth (VDict fs (assoc_set fname x kvs)) top), cs).
Proof.
  intros Hp Htop Hpath Hleaf Hi Hf Hx bits. set (wx := wire_encode 1 ftype x) in *.
  destruct (pack_bits_spec bits wx) as (Eb & Es & El).
  unfold nested_apply, br_init. rewrite Eb. subst bits. rewrite <- !app_assoc.
  rewrite get_field by (cbn; lia). cbn [bind]. change (1 =? 1) with true. cbv iota.
  assert (Hpid : (pid < length (e_client m))%nat) by (apply nth_error_Some; congruence).
  rewrite get_field by (apply index_fits; exact Hpid). cbn [bind]. rewrite Nat2N.id, Hp, Htop.
  set (tailbits := (to_bits (bits_required (length kvs)) (N.of_nat i) ++ repeat false _ ++ bits_of_bytes wx)%list).
  set (src := (pack_bits _ ++ wx)%list).
  assert (Hfuel : (length pbits <= S (8 * length src))%nat).
  { unfold src. rewrite app_length, El, !app_length. pose proof (Nat.div_mod (length (to_bits 1 1) + (length (to_bits (bits_required (length (e_client m))) (N.of_nat pid)) + (length pbits + length (to_bits (bits_required (length kvs)) (N.of_nat i)))) + 7) 8 ltac:(lia)).
    pose proof (Nat.mod_upper_bound (length (to_bits 1 1) + (length (to_bits (bits_required (length (e_client m))) (N.of_nat pid)) + (length pbits + length (to_bits (bits_required (length kvs)) (N.of_nat i)))) + 7) 8 ltac:(lia)). lia. }
  destruct (walk_encode_path pth top pbits tailbits (0 + 1 + bits_required (length (e_client m)))%nat src _ Hpath Hfuel) as (leaf & Hl & Hw).
  rewrite Hleaf in Hl. inversion Hl; subst leaf. rewrite Hw. cbn [bind].
  unfold leaf_op. cbv iota. unfold tailbits. rewrite get_field by (apply index_fits; exact Hi). cbn [bind].
  rewrite Nat2N.id, Hf.
  assert (Hrest : br_rest {| br_bits := (repeat false (pad_len (length (to_bits 1 1 ++ to_bits (bits_required (length (e_client m))) (N.of_nat pid) ++ pbits ++ to_bits (bits_required (length kvs)) (N.of_nat i)))) ++ bits_of_bytes wx)%list;
                             br_read := (0 + 1 + bits_required (length (e_client m)) + length pbits + bits_required (length kvs))%nat; br_src := src |} = wx).
  { unfold br_rest. cbn [br_read br_src]. unfold src. rewrite <- Es at 2. f_equal. f_equal. f_equal.
    rewrite !app_length, !to_bits_len. lia. }
  rewrite Hrest. unfold wx. rewrite <- (app_nil_r (wire_encode 1 ftype x)).
  rewrite (decode_wire_encode_partial ftype 1 x [] Hx). cbn [bind]. eexists. reflexivity.
Qed.
End DictLeaf.
Print Assumptions nested_set_dict_field.
