(* C07 across parses: a subscription survives whatever is parsed afterwards, unless a later controller registers the very same key.
   (Registration REPLACES the holder of a key - finding C07-a - and nothing in the model ever removes one: there is no "reset" of the tables.) *)
From RU Require Import Base History HistoryProofs.
Open Scope string_scope.

Theorem subscription_survives_parses vs k : forall hist g,
  Forall (fun p => ~ In k (vi_keys (vget vs (fst p)))) hist ->
  assoc_get k (run_parses vs g hist) = assoc_get k g.
Proof.
  induction hist as [|[o evs] r IH]; intros g H; [reflexivity|].
  inversion H as [|x l Hx Hr]; subst. cbn [run_parses parse_dispatch snd]. rewrite (IH _ Hr).
  apply register_get_notin. exact Hx.
Qed.

(* so an event with that key is still handed to the holder it had before those parses *)
Corollary holder_survives_parses vs k hist g o :
  Forall (fun p => ~ In k (vi_keys (vget vs (fst p)))) hist ->
  dispatch (run_parses vs g hist) o k = dispatch g o k.
Proof. intros H. unfold dispatch. rewrite (subscription_survives_parses vs k hist g H). reflexivity. Qed.
Print Assumptions holder_survives_parses.

Example survival_example :
  let vs := [{| vi_keys := ["Avatar_a"]; vi_hits := ["Avatar_a"] |}; {| vi_keys := ["Vehicle_b"]; vi_hits := [] |}] in
  dispatch (run_parses vs [("Thing_named", 7%nat)] [(0%nat, []); (1%nat, []); (0%nat, [])]) 7%nat "Thing_named" = Current.
Proof. reflexivity. Qed.
