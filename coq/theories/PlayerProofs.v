(* C05, byte level: base-player and cell-player creation packets.  The cell-player packet carries the values of ALL client-visible
   properties of the entity's type in DEFINITION order (no indices); the base-player packet carries the base properties (wows, wowp)
   or nothing that is decoded (wot).  Both reuse an entity that already exists under the id and otherwise create an Avatar. *)
From RU Require Import Base Types Defs BitReader World WireSpec TypesProofs LwwProofs CreateProofs.
From Coq Require Import Lia.
Open Scope N_scope.

Section Player.
Variable St : setup.

Fixpoint enc_props (ps : list prop) (vs : list value) : bytes :=
  match ps, vs with
  | p :: pr, v :: vr => (wire_encode 1 (p_type p) v ++ enc_props pr vr)%list
  | _, _ => []
  end.
Fixpoint typed_props (ps : list prop) (vs : list value) : Prop :=
  match ps, vs with
  | [], [] => True
  | p :: pr, v :: vr => has_type code_limits (p_type p) v /\ typed_props pr vr
  | _, _ => False
  end.
Fixpoint set_all (setter : entity -> string -> value -> entity) (ps : list prop) (vs : list value) (e : entity) : entity :=
  match ps, vs with
  | p :: pr, v :: vr => set_all setter pr vr (setter e (p_name p) v)
  | _, _ => e
  end.

Lemma fill_encoded setter : forall ps vs e rest, typed_props ps vs ->
  fill setter ps e (enc_props ps vs ++ rest) = (set_all setter ps vs e, None).
Proof.
  induction ps as [|p pr IH]; intros [|v vr] e rest H; cbn in H; try contradiction; [reflexivity|].
  destruct H as [Hv Hr]. cbn [enc_props fill set_all]. rewrite <- app_assoc.
  rewrite (decode_wire_encode_partial (p_type p) 1 v _ Hv). apply IH. exact Hr.
Qed.

Lemma set_all_client_frame : forall ps vs e, en_id (set_all set_client ps vs e) = en_id e /\ en_type (set_all set_client ps vs e) = en_type e.
Proof. induction ps as [|p pr IH]; intros [|v vr] e; cbn; auto. destruct (IH vr (set_client e (p_name p) v)). auto. Qed.
Lemma set_all_base_frame : forall ps vs e, en_id (set_all set_base ps vs e) = en_id e /\ en_type (set_all set_base ps vs e) = en_type e /\
                                         en_client (set_all set_base ps vs e) = en_client e.
Proof. induction ps as [|p pr IH]; intros [|v vr] e; cbn; auto. destruct (IH vr (set_base e (p_name p) v)) as (? & ? & ?). auto. Qed.

(* the cell-player packet (wows layout; wot inserts two more bytes) *)
Definition enc_cell (id : Z) (extra : bytes) (pad4a pad4b pad24 : bytes) (ps : list prop) (vs : list value) : bytes :=
  let val := enc_props ps vs in
  (le_encode 4 (of_signed 4 id) ++ pad4a ++ extra ++ pad4b ++ pad24 ++ le_encode 4 (N.of_nat (length val)) ++ val)%list.

Theorem cell_player_existing w id extra pad4a pad4b pad24 e m vs :
  s_game St <> Wowp -> (- 2 ^ 31 <= id < 2 ^ 31)%Z ->
  length pad4a = 4%nat -> length pad4b = 4%nat -> length pad24 = 24%nat ->
  length extra = (match s_game St with Wot => 2 | _ => 0 end)%nat ->
  N.of_nat (length (enc_props (e_internal m) vs)) < 2 ^ 32 ->
  zassoc_get id (w_entities w) = Some e -> assoc_get (en_type e) (s_models St) = Some m ->
  typed_props (e_internal m) vs ->
  step_class St w CellPlayerCreate (enc_cell id extra pad4a pad4b pad24 (e_internal m) vs) =
  (put w (set_all set_client (e_internal m) vs e), None).
Proof.
  intros Hg Hid H4a H4b H24 Hx Hlen He Hm Hty. unfold enc_cell. cbn [step_class].
  assert (Hs4 : forall (p r : bytes), length p = 4%nat -> exists z, get_s 4 (p ++ r) = Ok (z, r)).
  { intros p r Hp. unfold get_s. rewrite need_app by exact Hp. cbn [bind]. eexists. reflexivity. }
  assert (Hs2 : forall (p r : bytes), length p = 2%nat -> exists z, get_s 2 (p ++ r) = Ok (z, r)).
  { intros p r Hp. unfold get_s. rewrite need_app by exact Hp. cbn [bind]. eexists. reflexivity. }
  destruct (s_game St) eqn:G; [| |contradiction].
  - (* Wows *) destruct extra; [|discriminate]. cbn [app].
    rewrite get_s_app by (lia || (cbn; lia)). cbn [bind].
    destruct (Hs4 pad4a (pad4b ++ pad24 ++ le_encode 4 (N.of_nat (length (enc_props (e_internal m) vs))) ++ enc_props (e_internal m) vs)%list H4a) as [z1 E1]. rewrite E1. cbn [bind].
    destruct (Hs4 pad4b (pad24 ++ le_encode 4 (N.of_nat (length (enc_props (e_internal m) vs))) ++ enc_props (e_internal m) vs)%list H4b) as [z2 E2]. rewrite E2. cbn [bind].
    rewrite (need_app 24 pad24) by exact H24. cbn [bind].
    unfold binstream. rewrite (get_u_app 4) by (change (256 ^ N.of_nat 4) with (2 ^ 32); exact Hlen). cbn [bind]. rewrite read_uptoN_all. cbn [bind].
    rewrite He. unfold model_of. rewrite Hm.
    rewrite <- (app_nil_r (enc_props (e_internal m) vs)). rewrite (fill_encoded set_client (e_internal m) vs e [] Hty). reflexivity.
  - (* Wot *) rewrite get_s_app by (lia || (cbn; lia)). cbn [bind].
    destruct (Hs4 pad4a (extra ++ pad4b ++ pad24 ++ le_encode 4 (N.of_nat (length (enc_props (e_internal m) vs))) ++ enc_props (e_internal m) vs)%list H4a) as [z1 E1]. rewrite E1. cbn [bind].
    destruct (Hs2 extra (pad4b ++ pad24 ++ le_encode 4 (N.of_nat (length (enc_props (e_internal m) vs))) ++ enc_props (e_internal m) vs)%list Hx) as [z0 E0]. rewrite E0. cbn [bind].
    destruct (Hs4 pad4b (pad24 ++ le_encode 4 (N.of_nat (length (enc_props (e_internal m) vs))) ++ enc_props (e_internal m) vs)%list H4b) as [z2 E2]. rewrite E2. cbn [bind].
    rewrite (need_app 24 pad24) by exact H24. cbn [bind].
    unfold binstream. rewrite (get_u_app 4) by (change (256 ^ N.of_nat 4) with (2 ^ 32); exact Hlen). cbn [bind]. rewrite read_uptoN_all. cbn [bind].
    rewrite He. unfold model_of. rewrite Hm.
    rewrite <- (app_nil_r (enc_props (e_internal m) vs)). rewrite (fill_encoded set_client (e_internal m) vs e [] Hty). reflexivity.
Qed.

(* ... for an id that is not known yet the packet creates an Avatar and fills it the same way *)
Theorem cell_player_new w id extra pad4a pad4b pad24 m vs :
  s_game St <> Wowp -> (- 2 ^ 31 <= id < 2 ^ 31)%Z ->
  length pad4a = 4%nat -> length pad4b = 4%nat -> length pad24 = 24%nat ->
  length extra = (match s_game St with Wot => 2 | _ => 0 end)%nat ->
  N.of_nat (length (enc_props (e_internal m) vs)) < 2 ^ 32 ->
  zassoc_get id (w_entities w) = None -> assoc_get "Avatar"%string (s_models St) = Some m ->
  typed_props (e_internal m) vs ->
  step_class St w CellPlayerCreate (enc_cell id extra pad4a pad4b pad24 (e_internal m) vs) =
  (put w (set_all set_client (e_internal m) vs (mk_entity id "Avatar" (map (fun t => (t, None)) (e_vol m)))), None).
Proof.
  intros Hg Hid H4a H4b H24 Hx Hlen He Hm Hty. unfold enc_cell. cbn [step_class].
  assert (Hs4 : forall (p r : bytes), length p = 4%nat -> exists z, get_s 4 (p ++ r) = Ok (z, r)).
  { intros p r Hp. unfold get_s. rewrite need_app by exact Hp. cbn [bind]. eexists. reflexivity. }
  assert (Hs2 : forall (p r : bytes), length p = 2%nat -> exists z, get_s 2 (p ++ r) = Ok (z, r)).
  { intros p r Hp. unfold get_s. rewrite need_app by exact Hp. cbn [bind]. eexists. reflexivity. }
  destruct (s_game St) eqn:G; [| |contradiction].
  - destruct extra; [|discriminate]. cbn [app].
    rewrite get_s_app by (lia || (cbn; lia)). cbn [bind].
    destruct (Hs4 pad4a (pad4b ++ pad24 ++ le_encode 4 (N.of_nat (length (enc_props (e_internal m) vs))) ++ enc_props (e_internal m) vs)%list H4a) as [z1 E1]. rewrite E1. cbn [bind].
    destruct (Hs4 pad4b (pad24 ++ le_encode 4 (N.of_nat (length (enc_props (e_internal m) vs))) ++ enc_props (e_internal m) vs)%list H4b) as [z2 E2]. rewrite E2. cbn [bind].
    rewrite (need_app 24 pad24) by exact H24. cbn [bind].
    unfold binstream. rewrite (get_u_app 4) by (change (256 ^ N.of_nat 4) with (2 ^ 32); exact Hlen). cbn [bind]. rewrite read_uptoN_all. cbn [bind].
    rewrite He. unfold new_entity, model_of. rewrite Hm. cbn [bind en_type]. rewrite Hm.
    rewrite <- (app_nil_r (enc_props (e_internal m) vs)). rewrite (fill_encoded set_client (e_internal m) vs _ [] Hty). reflexivity.
  - rewrite get_s_app by (lia || (cbn; lia)). cbn [bind].
    destruct (Hs4 pad4a (extra ++ pad4b ++ pad24 ++ le_encode 4 (N.of_nat (length (enc_props (e_internal m) vs))) ++ enc_props (e_internal m) vs)%list H4a) as [z1 E1]. rewrite E1. cbn [bind].
    destruct (Hs2 extra (pad4b ++ pad24 ++ le_encode 4 (N.of_nat (length (enc_props (e_internal m) vs))) ++ enc_props (e_internal m) vs)%list Hx) as [z0 E0]. rewrite E0. cbn [bind].
    destruct (Hs4 pad4b (pad24 ++ le_encode 4 (N.of_nat (length (enc_props (e_internal m) vs))) ++ enc_props (e_internal m) vs)%list H4b) as [z2 E2]. rewrite E2. cbn [bind].
    rewrite (need_app 24 pad24) by exact H24. cbn [bind].
    unfold binstream. rewrite (get_u_app 4) by (change (256 ^ N.of_nat 4) with (2 ^ 32); exact Hlen). cbn [bind]. rewrite read_uptoN_all. cbn [bind].
    rewrite He. unfold new_entity, model_of. rewrite Hm. cbn [bind en_type]. rewrite Hm.
    rewrite <- (app_nil_r (enc_props (e_internal m) vs)). rewrite (fill_encoded set_client (e_internal m) vs _ [] Hty). reflexivity.
Qed.

(* ---- as events of the last-writer-wins spec ---- *)
Fixpoint updates (id : Z) (ps : list prop) (vs : list value) : list ev :=
  match ps, vs with
  | p :: pr, v :: vr => EvUpdate id (p_name p) v :: updates id pr vr
  | _, _ => []
  end.
Fixpoint pairs (ps : list prop) (vs : list value) : list (string * value) :=
  match ps, vs with
  | p :: pr, v :: vr => (p_name p, v) :: pairs pr vr
  | _, _ => []
  end.
Lemma zassoc_set_same {A} k (v : A) l : zassoc_get k l = Some v -> zassoc_set k v l = l.
Proof.
  induction l as [|[k' v'] r IH]; cbn; [discriminate|]. destruct (Z.eqb k k') eqn:E.
  - apply Z.eqb_eq in E. subst. intros H; inversion H; reflexivity.
  - intros H. rewrite (IH H). reflexivity.
Qed.
Lemma zassoc_set_set {A} k (v1 v2 : A) l : zassoc_set k v2 (zassoc_set k v1 l) = zassoc_set k v2 l.
Proof.
  induction l as [|[k' v'] r IH]; cbn; [rewrite Z.eqb_refl; reflexivity|].
  destruct (Z.eqb k k') eqn:E; cbn; [rewrite Z.eqb_refl; reflexivity | rewrite E, IH; reflexivity].
Qed.

Lemma fold_updates vol : forall ps vs w e id, zassoc_get id (w_entities w) = Some e -> en_id e = id ->
  w_entities (fold_left (conc_step vol) (updates id ps vs) w) = w_entities (put w (set_all set_client ps vs e)).
Proof.
  induction ps as [|p pr IH]; intros vs w e id He Hid.
  - cbn. rewrite Hid. symmetry. apply zassoc_set_same. exact He.
  - destruct vs as [|v vr].
    + cbn. rewrite Hid. symmetry. apply zassoc_set_same. exact He.
    + cbn [updates fold_left set_all conc_step]. rewrite He.
      assert (He' : zassoc_get id (w_entities (put w (set_client e (p_name p) v))) = Some (set_client e (p_name p) v)).
      { unfold put; cbn [w_entities set_client en_id]. rewrite Hid. apply zassoc_get_set_same. }
      rewrite (IH vr (put w (set_client e (p_name p) v)) (set_client e (p_name p) v) id He' Hid).
      destruct (set_all_client_frame pr vr (set_client e (p_name p) v)) as [Hi _]. cbn [set_client en_id] in Hi.
      unfold put; cbn [w_entities]. rewrite Hi, Hid. cbn [set_client en_id]. rewrite Hid. apply zassoc_set_set.
Qed.
Lemma set_all_is_fold : forall ps vs e,
  set_all set_client ps vs e = fold_left (fun en kv => set_client en (fst kv) (snd kv)) (pairs ps vs) e.
Proof. induction ps as [|p pr IH]; intros [|v vr] e; cbn; try reflexivity. apply IH. Qed.

Lemma fold_ids_ok vol : forall evs w s, ids_ok w -> same (abs w) s -> ids_ok (fold_left (conc_step vol) evs w).
Proof.
  induction evs as [|ev r IH]; intros w0 s0 Hok0 Hs0; [exact Hok0|].
  cbn [fold_left]. destruct (step_refines vol w0 s0 ev Hok0 Hs0) as [H1 H2]. apply (IH _ _ H1 H2).
Qed.

(* the cell-player packet for a known entity = one update event per client-visible property, in definition order;
   for an unknown id = the creation of an Avatar with exactly those values *)
Theorem cell_player_existing_refines w s id extra pad4a pad4b pad24 e m vs :
  s_game St <> Wowp -> (- 2 ^ 31 <= id < 2 ^ 31)%Z ->
  length pad4a = 4%nat -> length pad4b = 4%nat -> length pad24 = 24%nat ->
  length extra = (match s_game St with Wot => 2 | _ => 0 end)%nat ->
  N.of_nat (length (enc_props (e_internal m) vs)) < 2 ^ 32 ->
  zassoc_get id (w_entities w) = Some e -> assoc_get (en_type e) (s_models St) = Some m ->
  typed_props (e_internal m) vs -> ids_ok w -> same (abs w) s ->
  let w' := fst (step_class St w CellPlayerCreate (enc_cell id extra pad4a pad4b pad24 (e_internal m) vs)) in
  ids_ok w' /\ same (abs w') (fold_left spec_step (updates id (e_internal m) vs) s).
Proof.
  intros Hg Hid H4a H4b H24 Hx Hlen He Hm Hty Hok Hs w'. subst w'.
  rewrite (cell_player_existing w id extra pad4a pad4b pad24 e m vs Hg Hid H4a H4b H24 Hx Hlen He Hm Hty). cbn [fst].
  assert (Hent := fold_updates (fun _ => []) (e_internal m) vs w e id He (Hok _ _ He)).
  assert (Hr := world_refines_spec (fun _ => []) (updates id (e_internal m) vs) w s Hok Hs).
  assert (Hok' := fold_ids_ok (fun _ => []) (updates id (e_internal m) vs) w s Hok Hs).
  split.
  - apply (ids_ok_entities _ _ Hent Hok').
  - rewrite <- (abs_entities _ _ Hent). exact Hr.
Qed.
Theorem cell_player_new_refines w s id extra pad4a pad4b pad24 m vs :
  s_game St <> Wowp -> (- 2 ^ 31 <= id < 2 ^ 31)%Z ->
  length pad4a = 4%nat -> length pad4b = 4%nat -> length pad24 = 24%nat ->
  length extra = (match s_game St with Wot => 2 | _ => 0 end)%nat ->
  N.of_nat (length (enc_props (e_internal m) vs)) < 2 ^ 32 ->
  zassoc_get id (w_entities w) = None -> assoc_get "Avatar"%string (s_models St) = Some m ->
  typed_props (e_internal m) vs -> ids_ok w -> same (abs w) s ->
  let w' := fst (step_class St w CellPlayerCreate (enc_cell id extra pad4a pad4b pad24 (e_internal m) vs)) in
  ids_ok w' /\ same (abs w') (spec_step s (EvCreate id "Avatar" (pairs (e_internal m) vs))).
Proof.
  intros Hg Hid H4a H4b H24 Hx Hlen He Hm Hty Hok Hs w'. subst w'.
  rewrite (cell_player_new w id extra pad4a pad4b pad24 m vs Hg Hid H4a H4b H24 Hx Hlen He Hm Hty). cbn [fst].
  rewrite set_all_is_fold.
  apply (step_refines (fun _ => map (fun t => (t, None)) (e_vol m)) w s (EvCreate id "Avatar" (pairs (e_internal m) vs)) Hok Hs).
Qed.

(* ---- the base-player packet: id, type index, then (wows, wowp) the base properties in definition order ---- *)
Definition enc_base (id : Z) (ty : bytes) (val : bytes) : bytes :=
  (le_encode 4 (of_signed 4 id) ++ ty ++ le_encode 4 (N.of_nat (length val)) ++ val)%list.

Lemma base_header id ty val : (- 2 ^ 31 <= id < 2 ^ 31)%Z -> length ty = 2%nat -> N.of_nat (length val) < 2 ^ 32 ->
  ('(i, r1) <- get_s 4 (enc_base id ty val) ;; '(_, r2) <- get_s 2 r1 ;; '(v, _) <- binstream r2 ;; Ok (i, v)) = Ok (id, val).
Proof.
  intros Hid Hty Hlen. unfold enc_base. rewrite get_s_app by (lia || (cbn; lia)). cbn [bind].
  unfold get_s at 1. rewrite need_app by exact Hty. cbn [bind].
  unfold binstream. rewrite (get_u_app 4) by (change (256 ^ N.of_nat 4) with (2 ^ 32); exact Hlen). cbn [bind]. rewrite read_uptoN_all. reflexivity.
Qed.

Lemma abs_put_same_client w e e' id : zassoc_get id (w_entities w) = Some e -> en_id e = id ->
  en_id e' = id -> en_type e' = en_type e -> en_client e' = en_client e -> forall i, abs (put w e') i = abs w i.
Proof.
  intros He Hid Hid' Ht Hc i. unfold abs, put; cbn [w_entities]. rewrite Hid'.
  destruct (Z.eq_dec id i) as [<-|Hne].
  - rewrite zassoc_get_set_same, He, Ht, Hc. reflexivity.
  - rewrite zassoc_get_set_other by exact Hne. reflexivity.
Qed.
Lemma same_ext (a b c : spec_state) : (forall i, a i = b i) -> same b c -> same a c.
Proof. intros H S i. rewrite H. apply S. Qed.

Lemma ids_ok_put w e : ids_ok w -> ids_ok (put w e).
Proof.
  intros Hok i en. unfold put; cbn [w_entities]. destruct (Z.eq_dec (en_id e) i) as [<-|Hne].
  - rewrite zassoc_get_set_same. intros H; inversion H; reflexivity.
  - rewrite zassoc_get_set_other by exact Hne. apply Hok.
Qed.
Lemma ids_ok_set_player w id : ids_ok w -> ids_ok (set_player w id).
Proof. intros H i en. unfold set_player; cbn [w_entities]. apply H. Qed.
Lemma abs_set_player w id i : abs (set_player w id) i = abs w i.
Proof. reflexivity. Qed.

(* known id (any type): the entity keeps its type and client properties, receives the base properties, and becomes the recording player *)
Theorem base_player_existing w s id ty e m vs :
  s_game St <> Wot -> (- 2 ^ 31 <= id < 2 ^ 31)%Z -> length ty = 2%nat -> N.of_nat (length (enc_props (e_base m) vs)) < 2 ^ 32 ->
  zassoc_get id (w_entities w) = Some e -> assoc_get (en_type e) (s_models St) = Some m -> typed_props (e_base m) vs ->
  ids_ok w -> same (abs w) s ->
  let r := step_class St w BasePlayerCreate (enc_base id ty (enc_props (e_base m) vs)) in
  snd r = None /\ w_player (fst r) = Some id /\ ids_ok (fst r) /\ same (abs (fst r)) s.
Proof.
  intros Hg Hid Hty Hlen He Hm Htp Hok Hs r. subst r. cbn [step_class].
  rewrite (base_header id ty _ Hid Hty Hlen). rewrite He. unfold model_of. rewrite Hm.
  rewrite <- (app_nil_r (enc_props (e_base m) vs)). rewrite (fill_encoded set_base (e_base m) vs e [] Htp).
  destruct (set_all_base_frame (e_base m) vs e) as (Hi & Ht & Hc). pose proof (Hok _ _ He) as Hide.
  assert (R : ids_ok (set_player (put w (set_all set_base (e_base m) vs e)) id) /\ same (abs (set_player (put w (set_all set_base (e_base m) vs e)) id)) s).
  { split; [apply ids_ok_set_player, ids_ok_put, Hok|].
    apply (same_ext _ (abs w)); [|exact Hs]. intros i. rewrite abs_set_player.
    apply (abs_put_same_client w e _ id He Hide); [rewrite Hi; exact Hide | exact Ht | exact Hc]. }
  destruct (s_game St) eqn:G; [|contradiction|]; cbn [fst snd set_player w_player]; (split; [reflexivity|]; split; [reflexivity|]; exact R).
Qed.
(* unknown id: an Avatar is created (no client property yet) and becomes the recording player *)
Theorem base_player_new w s id ty m vs :
  s_game St <> Wot -> (- 2 ^ 31 <= id < 2 ^ 31)%Z -> length ty = 2%nat -> N.of_nat (length (enc_props (e_base m) vs)) < 2 ^ 32 ->
  zassoc_get id (w_entities w) = None -> assoc_get "Avatar"%string (s_models St) = Some m -> typed_props (e_base m) vs ->
  ids_ok w -> same (abs w) s ->
  let r := step_class St w BasePlayerCreate (enc_base id ty (enc_props (e_base m) vs)) in
  snd r = None /\ w_player (fst r) = Some id /\ ids_ok (fst r) /\ same (abs (fst r)) (spec_step s (EvCreate id "Avatar" [])).
Proof.
  intros Hg Hid Hty Hlen He Hm Htp Hok Hs r. subst r. cbn [step_class].
  rewrite (base_header id ty _ Hid Hty Hlen). rewrite He. unfold new_entity, model_of. rewrite Hm. cbn [bind en_type]. rewrite Hm.
  rewrite <- (app_nil_r (enc_props (e_base m) vs)). rewrite (fill_encoded set_base (e_base m) vs _ [] Htp).
  set (e0 := {| en_id := id; en_type := "Avatar"; en_client := []; en_base := []; en_cell := []; en_vol := map (fun t => (t, None)) (e_vol m) |}).
  destruct (set_all_base_frame (e_base m) vs e0) as (Hi & Ht & Hc). cbn [e0 en_id en_type en_client] in Hi, Ht, Hc.
  destruct (step_refines (fun _ => map (fun t => (t, None)) (e_vol m)) w s (EvCreate id "Avatar" []) Hok Hs) as [Hok1 Hs1].
  cbn [conc_step fold_left] in Hok1, Hs1. fold e0 in Hok1, Hs1. unfold mk_entity in Hok1, Hs1. fold e0 in Hok1, Hs1.
  assert (Habs : forall i, abs (put w (set_all set_base (e_base m) vs e0)) i = abs (put w e0) i).
  { intros i. unfold abs, put; cbn [w_entities]. rewrite Hi. cbn [e0 en_id].
    destruct (Z.eq_dec id i) as [<-|Hne]; [rewrite !zassoc_get_set_same, Ht, Hc; reflexivity | rewrite !zassoc_get_set_other by exact Hne; reflexivity]. }
  assert (R : ids_ok (set_player (put w (set_all set_base (e_base m) vs e0)) id) /\
              same (abs (set_player (put w (set_all set_base (e_base m) vs e0)) id)) (spec_step s (EvCreate id "Avatar" []))).
  { split; [apply ids_ok_set_player, ids_ok_put, Hok|].
    apply (same_ext _ (abs (put w e0))); [|exact Hs1]. intros i. rewrite abs_set_player. apply Habs. }
  destruct (s_game St) eqn:G; [|contradiction|]; cbn [fst snd set_player w_player]; (split; [reflexivity|]; split; [reflexivity|]; exact R).
Qed.

(* ---- the statement's four packet kinds in ANY order and number ---- *)
Inductive history : world -> list (pclass * bytes) -> list ev -> Prop :=
| h_nil w : history w [] []
| h_create w id et pad extra items name m rest evs :
    (- 2 ^ 31 <= id < 2 ^ 31)%Z -> (- 2 ^ 15 <= et < 2 ^ 15)%Z -> length pad = 32%nat ->
    length extra = (match s_game St with Wot => 4 | _ => 0 end)%nat ->
    (length items < 256)%nat -> N.of_nat (S (length (flat_map enc_item items))) < 2 ^ 32 ->
    entity_by_index (s_names St) et = Some name -> assoc_get name (s_models St) = Some m -> Forall (item_ok m) items ->
    history (fst (step_class St w EntityCreate (enc_create id et pad extra items))) rest evs ->
    history w ((EntityCreate, enc_create id et pad extra items) :: rest) (EvCreate id name (map (fun it => (p_name (snd (fst it)), snd it)) items) :: evs)
| h_update w id pid val e m p v r rest evs :
    id < 2 ^ 32 -> pid < 2 ^ 32 -> N.of_nat (length val) < 2 ^ 32 ->
    zassoc_get (Z.of_N id) (w_entities w) = Some e -> assoc_get (en_type e) (s_models St) = Some m ->
    nthN (e_client m) pid = Some p -> decode 1 (p_type p) val = Ok (v, r) ->
    history (fst (step_class St w EntityProperty (enc_update id pid val))) rest evs ->
    history w ((EntityProperty, enc_update id pid val) :: rest) (EvUpdate (Z.of_N id) (p_name p) v :: evs)
| h_update_unknown w id pid val rest evs :
    id < 2 ^ 32 -> pid < 2 ^ 32 -> N.of_nat (length val) < 2 ^ 32 -> zassoc_get (Z.of_N id) (w_entities w) = None ->
    history w rest evs -> history w ((EntityProperty, enc_update id pid val) :: rest) evs
| h_cell_existing w id extra pad4a pad4b pad24 e m vs rest evs :
    s_game St <> Wowp -> (- 2 ^ 31 <= id < 2 ^ 31)%Z -> length pad4a = 4%nat -> length pad4b = 4%nat -> length pad24 = 24%nat ->
    length extra = (match s_game St with Wot => 2 | _ => 0 end)%nat -> N.of_nat (length (enc_props (e_internal m) vs)) < 2 ^ 32 ->
    zassoc_get id (w_entities w) = Some e -> assoc_get (en_type e) (s_models St) = Some m -> typed_props (e_internal m) vs ->
    history (fst (step_class St w CellPlayerCreate (enc_cell id extra pad4a pad4b pad24 (e_internal m) vs))) rest evs ->
    history w ((CellPlayerCreate, enc_cell id extra pad4a pad4b pad24 (e_internal m) vs) :: rest) (updates id (e_internal m) vs ++ evs)%list
| h_cell_new w id extra pad4a pad4b pad24 m vs rest evs :
    s_game St <> Wowp -> (- 2 ^ 31 <= id < 2 ^ 31)%Z -> length pad4a = 4%nat -> length pad4b = 4%nat -> length pad24 = 24%nat ->
    length extra = (match s_game St with Wot => 2 | _ => 0 end)%nat -> N.of_nat (length (enc_props (e_internal m) vs)) < 2 ^ 32 ->
    zassoc_get id (w_entities w) = None -> assoc_get "Avatar"%string (s_models St) = Some m -> typed_props (e_internal m) vs ->
    history (fst (step_class St w CellPlayerCreate (enc_cell id extra pad4a pad4b pad24 (e_internal m) vs))) rest evs ->
    history w ((CellPlayerCreate, enc_cell id extra pad4a pad4b pad24 (e_internal m) vs) :: rest) (EvCreate id "Avatar" (pairs (e_internal m) vs) :: evs)
| h_base_existing w id ty e m vs rest evs :
    s_game St <> Wot -> (- 2 ^ 31 <= id < 2 ^ 31)%Z -> length ty = 2%nat -> N.of_nat (length (enc_props (e_base m) vs)) < 2 ^ 32 ->
    zassoc_get id (w_entities w) = Some e -> assoc_get (en_type e) (s_models St) = Some m -> typed_props (e_base m) vs ->
    history (fst (step_class St w BasePlayerCreate (enc_base id ty (enc_props (e_base m) vs)))) rest evs ->
    history w ((BasePlayerCreate, enc_base id ty (enc_props (e_base m) vs)) :: rest) evs
| h_base_new w id ty m vs rest evs :
    s_game St <> Wot -> (- 2 ^ 31 <= id < 2 ^ 31)%Z -> length ty = 2%nat -> N.of_nat (length (enc_props (e_base m) vs)) < 2 ^ 32 ->
    zassoc_get id (w_entities w) = None -> assoc_get "Avatar"%string (s_models St) = Some m -> typed_props (e_base m) vs ->
    history (fst (step_class St w BasePlayerCreate (enc_base id ty (enc_props (e_base m) vs)))) rest evs ->
    history w ((BasePlayerCreate, enc_base id ty (enc_props (e_base m) vs)) :: rest) (EvCreate id "Avatar" [] :: evs).

Lemma fold_spec_app evs1 evs2 s : fold_left spec_step (evs1 ++ evs2) s = fold_left spec_step evs2 (fold_left spec_step evs1 s).
Proof. apply fold_left_app. Qed.

(* C05, byte level, all four packet kinds: after ANY such history the entity table refines the last-writer-wins fold of the events *)
Theorem history_refines_spec : forall w pkts evs, history w pkts evs -> forall s,
  ids_ok w -> same (abs w) s ->
  ids_ok (play_packets St w pkts) /\ same (abs (play_packets St w pkts)) (fold_left spec_step evs s).
Proof.
  induction 1 as [w
    |w id et pad extra items name m rest evs Hid Het Hpad Hextra Hcnt Hlen Hname Hm HF Hrest IH
    |w id pid val e m p v r rest evs Hid Hpid Hlen He Hm Hp Hd Hrest IH
    |w id pid val rest evs Hid Hpid Hlen He Hrest IH
    |w id extra pad4a pad4b pad24 e m vs rest evs Hg Hid H4a H4b H24 Hx Hlen He Hm Hty Hrest IH
    |w id extra pad4a pad4b pad24 m vs rest evs Hg Hid H4a H4b H24 Hx Hlen He Hm Hty Hrest IH
    |w id ty e m vs rest evs Hg Hid Hty Hlen He Hm Htp Hrest IH
    |w id ty m vs rest evs Hg Hid Hty Hlen He Hm Htp Hrest IH]; intros s Hok Hs.
  - split; assumption.
  - cbn [play_packets fold_left fst snd].
    destruct (create_packet_is_event St w id et pad extra items name m Hid Het Hpad Hextra Hcnt Hlen Hname Hm HF) as [_ Hent].
    set (ev0 := EvCreate id name (map (fun it => (p_name (snd (fst it)), snd it)) items)) in *.
    destruct (step_refines (fun _ => map (fun t => (t, None)) (e_vol m)) w s ev0 Hok Hs) as [Hok1 Hs1].
    apply IH; [apply (ids_ok_entities _ _ (eq_sym Hent) Hok1) | rewrite (abs_entities _ _ Hent); exact Hs1].
  - cbn [play_packets fold_left fst snd].
    destruct (update_packet_is_event St w id pid val e m p v r Hid Hpid Hlen He Hm Hp Hd Hok) as [_ Hent].
    destruct (step_refines (fun _ => []) w s (EvUpdate (Z.of_N id) (p_name p) v) Hok Hs) as [Hok1 Hs1].
    apply IH; [apply (ids_ok_entities _ _ (eq_sym Hent) Hok1) | rewrite (abs_entities _ _ Hent); exact Hs1].
  - cbn [play_packets fold_left fst snd]. rewrite (update_packet_unknown_entity St w id pid val Hid Hpid Hlen He). cbn [fst]. apply IH; assumption.
  - cbn [play_packets fold_left fst snd]. rewrite fold_spec_app.
    destruct (cell_player_existing_refines w s id extra pad4a pad4b pad24 e m vs Hg Hid H4a H4b H24 Hx Hlen He Hm Hty Hok Hs) as [Hok1 Hs1].
    apply IH; assumption.
  - cbn [play_packets fold_left fst snd].
    destruct (cell_player_new_refines w s id extra pad4a pad4b pad24 m vs Hg Hid H4a H4b H24 Hx Hlen He Hm Hty Hok Hs) as [Hok1 Hs1].
    apply IH; assumption.
  - cbn [play_packets fold_left fst snd].
    destruct (base_player_existing w s id ty e m vs Hg Hid Hty Hlen He Hm Htp Hok Hs) as (_ & _ & Hok1 & Hs1). apply IH; assumption.
  - cbn [play_packets fold_left fst snd].
    destruct (base_player_new w s id ty m vs Hg Hid Hty Hlen He Hm Htp Hok Hs) as (_ & _ & Hok1 & Hs1). apply IH; assumption.
Qed.
End Player.
Print Assumptions cell_player_existing.
Print Assumptions cell_player_existing_refines.
Print Assumptions cell_player_new_refines.
Print Assumptions base_player_existing.
Print Assumptions base_player_new.
Print Assumptions history_refines_spec.
