(* C06: a nested-property packet built from a path / leaf operation is applied as the corresponding list/dict update *)
From RU Require Import Base Types Defs BitReader World WireSpec TypesProofs BitReaderProofs LwwProofs.
From Coq Require Import Lia.
Open Scope N_scope.

(* ---- MSB-first fixed width numbers ---- *)
Fixpoint to_bits (w : nat) (x : N) : list bool :=
  match w with
  | O => []
  | S w' => if 2 ^ N.of_nat w' <=? x then true :: to_bits w' (x - 2 ^ N.of_nat w') else false :: to_bits w' x
  end.
Lemma to_bits_len w : forall x, length (to_bits w x) = w.
Proof. induction w; simpl; intros; auto. destruct (_ <=? _); simpl; auto. Qed.

Lemma br_get_loop_to_bits w : forall x acc rest, x < 2 ^ N.of_nat w ->
  br_get_loop w acc (to_bits w x ++ rest) = Ok (acc * 2 ^ N.of_nat w + x, rest).
Proof.
  induction w as [|w IH]; intros x acc rest Hx.
  - cbn in *. f_equal. f_equal. lia.
  - cbn [to_bits]. rewrite Nat2N.inj_succ, N.pow_succ_r' in *. set (p := 2 ^ N.of_nat w) in *.
    destruct (p <=? x) eqn:E.
    + apply N.leb_le in E. cbn [app br_get_loop]. rewrite IH by (fold p; lia). fold p. f_equal. f_equal. lia.
    + apply N.leb_gt in E. cbn [app br_get_loop]. rewrite IH by (fold p; lia). fold p. f_equal. f_equal. lia.
Qed.

Lemma br_get_to_bits w x rest n src : x < 2 ^ N.of_nat w ->
  br_get w {| br_bits := to_bits w x ++ rest; br_read := n; br_src := src |} =
  Ok (x, {| br_bits := rest; br_read := (n + w)%nat; br_src := src |}).
Proof. intros H. unfold br_get. cbn [br_bits br_read br_src]. rewrite br_get_loop_to_bits by exact H. cbn [bind]. f_equal. Qed.

(* ---- path encoding (spec) and walk (model) ---- *)
Fixpoint encode_path (v : value) (p : list nat) : option (list bool) :=
  match p with
  | [] => Some [false]
  | i :: p' =>
      match vsize v, vchild v i with
      | Some l, Some c => match encode_path c p' with
                          | Some bs => Some (true :: to_bits (bits_required l) (N.of_nat i) ++ bs)
                          | None => None end
      | _, _ => None
      end
  end.
Fixpoint leaf_of (v : value) (p : list nat) : option value :=
  match p with [] => Some v | i :: p' => match vchild v i with Some c => leaf_of c p' | None => None end end.

Lemma vchild_lt v i c l : vchild v i = Some c -> vsize v = Some l -> (i < l)%nat.
Proof.
  destruct v; cbn; try discriminate.
  - intros H1 H2. inversion H2; subst. apply nth_error_Some. congruence.
  - destruct (nth_error kvs i) eqn:E; [|discriminate]. intros _ H2. inversion H2; subst. apply nth_error_Some. congruence.
Qed.
Lemma vchild_truthy v i c : vchild v i = Some c -> truthy v = true.
Proof. destruct v as [| | | | | | |t [|]|t [|]|]; cbn; try discriminate; auto; destruct i; discriminate. Qed.

Theorem walk_encode_path : forall p v bs rest n src fuel,
  encode_path v p = Some bs -> (length bs <= fuel)%nat ->
  exists leaf, leaf_of v p = Some leaf /\
    walk fuel v {| br_bits := bs ++ rest; br_read := n; br_src := src |} =
    Ok (p, leaf, {| br_bits := rest; br_read := (n + length bs)%nat; br_src := src |}).
Proof.
  induction p as [|i p IH]; intros v bs rest n src fuel He Hf.
  - cbn in He. inversion He; subst. cbn in Hf. destruct fuel; [lia|]. exists v. split; [reflexivity|].
    cbn [walk app]. unfold br_get at 1. cbn [br_bits br_read br_src br_get_loop bind]. reflexivity.
  - cbn [encode_path] in He. destruct (vsize v) as [l|] eqn:El; [|discriminate].
    destruct (vchild v i) as [c|] eqn:Ec; [|discriminate].
    destruct (encode_path c p) as [bs'|] eqn:Ep; [|discriminate]. inversion He; subst; clear He.
    destruct fuel; [cbn in Hf; lia|].
    cbn [walk app]. unfold br_get at 1. cbn [br_bits br_read br_src br_get_loop bind].
    change (2 * 0 + 1 =? 1) with true. rewrite (vchild_truthy _ _ _ Ec). cbn [andb]. rewrite El.
    rewrite <- app_assoc. rewrite br_get_to_bits by (apply index_fits; eapply vchild_lt; eauto). cbn [bind].
    rewrite Nat2N.id, Ec.
    cbn [length] in Hf. rewrite app_length, to_bits_len in Hf.
    destruct (IH c bs' rest (n + 1 + bits_required l)%nat src fuel Ep ltac:(lia)) as (leaf & Hl & Hw).
    exists leaf. cbn [leaf_of]. rewrite Ec. split; [exact Hl|]. rewrite Hw. cbn [bind].
    do 3 f_equal. cbn [length]. rewrite app_length, to_bits_len. lia.
Qed.

(* update_at really is "replace the addressed sub-value, nothing else" *)
Lemma nth_error_replace_nth_same {A} (l : list A) : forall i x y, nth_error l i = Some y -> nth_error (replace_nth i x l) i = Some x.
Proof. induction l as [|a l IH]; intros [|i] x y H; cbn in *; try discriminate; auto. eapply IH; eauto. Qed.
Lemma nth_error_replace_nth_other {A} (l : list A) : forall i j x, i <> j -> nth_error (replace_nth i x l) j = nth_error l j.
Proof. induction l as [|a l IH]; intros [|i] [|j] x H; cbn; auto; try congruence; try (apply IH; congruence). Qed.

Theorem update_at_leaf : forall p v leaf new, leaf_of v p = Some leaf -> leaf_of (update_at p new v) p = Some new.
Proof.
  induction p as [|i p IH]; intros v leaf new H; [reflexivity|].
  cbn [leaf_of] in H. destruct (vchild v i) as [c|] eqn:Ec; [|discriminate].
  destruct v; cbn in Ec; try discriminate; cbn [update_at].
  - rewrite Ec. cbn [leaf_of vchild]. rewrite (nth_error_replace_nth_same _ _ _ _ Ec). eapply IH; eauto.
  - destruct (nth_error kvs i) as [[k c']|] eqn:En; [|discriminate]. cbn in Ec. inversion Ec; subst c'.
    cbn [leaf_of vchild]. rewrite (nth_error_replace_nth_same _ _ _ _ En). cbn. eapply IH; eauto.
Qed.
Theorem update_at_sibling : forall p v new j, (match p with i :: _ => i <> j | [] => False end) ->
  vchild (update_at p new v) j = vchild v j.
Proof.
  intros [|i p] v new j H; [contradiction|]. destruct v; cbn [update_at]; try reflexivity.
  - destruct (nth_error l i) eqn:E; [|reflexivity]. cbn [vchild]. now apply nth_error_replace_nth_other.
  - destruct (nth_error kvs i) as [[k c]|] eqn:E; [|reflexivity]. cbn [vchild]. now rewrite nth_error_replace_nth_other.
Qed.

(* Python slice assignment, characterised *)
Lemma slice_assign_spec {A} (i j : nat) (xs l : list A) : (i <= j <= length l)%nat ->
  slice_assign i j xs l = firstn i l ++ xs ++ skipn j l.
Proof. intros H. unfold slice_assign. rewrite Nat.min_l by lia. rewrite (Nat.min_l j) by lia. now rewrite Nat.max_r by lia. Qed.
Lemma slice_assign_insert_end {A} (xs l : list A) : slice_assign (length l) (length l) xs l = l ++ xs.
Proof. rewrite slice_assign_spec by lia. now rewrite firstn_all, skipn_all, app_nil_r. Qed.
Lemma slice_assign_delete_all {A} (l : list A) : slice_assign 0 (length l) [] l = [].
Proof. rewrite slice_assign_spec by lia. now rewrite skipn_all. Qed.
Lemma slice_assign_length {A} (i j : nat) (xs l : list A) : (i <= j <= length l)%nat ->
  length (slice_assign i j xs l) = (length l - (j - i) + length xs)%nat.
Proof. intros H. rewrite slice_assign_spec by exact H. rewrite !app_length, firstn_length, skipn_length. lia. Qed.


(* ---- the whole packet: only the addressed client property of the addressed entity changes ---- *)
Section Apply.
Variable St : setup.
Lemma nested_apply_shape e m sl payload e' cs :
  nested_apply St e m sl payload = Ok (e', cs) -> exists name v, e' = set_client e name v.
Proof.
  unfold nested_apply. intros H.
  destruct (br_get 1 (br_init payload)) as [[c r1]|]; cbn [bind] in H; [|discriminate H].
  destruct (c =? 1); [|discriminate H].
  destruct (br_get _ r1) as [[pid r2]|]; cbn [bind] in H; [|discriminate H].
  destruct (nth_error (e_client m) (N.to_nat pid)) as [p|]; [|discriminate H].
  destruct (assoc_get (p_name p) (en_client e)) as [top|]; [|discriminate H].
  destruct (walk _ top r2) as [[[path leaf] r3]|]; cbn [bind] in H; [|discriminate H].
  destruct (leaf_op sl leaf r3) as [[[newleaf last] notify]|]; cbn [bind] in H; [|discriminate H].
  inversion H; subst. eauto.
Qed.
Theorem nested_apply_frame e m sl payload e' cs :
  nested_apply St e m sl payload = Ok (e', cs) ->
  en_base e' = en_base e /\ en_cell e' = en_cell e /\ en_vol e' = en_vol e /\ en_id e' = en_id e /\ en_type e' = en_type e.
Proof. intros H. destruct (nested_apply_shape _ _ _ _ _ _ H) as (name & v & ->). repeat split. Qed.
Theorem nested_apply_other_props e m sl payload e' cs :
  nested_apply St e m sl payload = Ok (e', cs) ->
  exists name, forall k, k <> name -> assoc_get k (en_client e') = assoc_get k (en_client e).
Proof.
  intros H. destruct (nested_apply_shape _ _ _ _ _ _ H) as (name & v & ->). exists name. intros k Hk.
  cbn [set_client en_client]. apply LwwProofs.assoc_get_set_other. congruence.
Qed.

(* packet level: the payload size field is one UNSIGNED byte (after the repair recorded as fixed: C06-a); every nested packet whose payload
   is 0..255 bytes passes the size check and is handed to nested_apply with exactly that payload *)
Theorem nested_packet_reaches_apply w id sl u payload :
  (length payload < 256)%nat -> length u = 3%nat -> id < 2 ^ 32 ->
  step_class St w NestedProperty (le_encode 4 id ++ [sl] ++ [n2b (N.of_nat (length payload))] ++ u ++ payload) =
  atomic w (e <- lookup_entity w (Z.of_N id) ;; m <- model_of St (en_type e) ;;
            '(e', cs) <- nested_apply St e m (Z.eqb (to_signed 1 (b2n sl)) 1) payload ;; Ok (log (put w e') cs)).
Proof.
  intros Hl Hu Hid. cbn [step_class].
  rewrite (get_u_app 4) by (change (256 ^ N.of_nat 4) with (2 ^ 32); exact Hid). cbn [bind app].
  unfold get_s at 1. unfold need. cbn [split_exact bind le_decode].
  rewrite get_u1_cons. cbn [bind].
  rewrite read_upto_app by exact Hu. cbn [snd].
  rewrite N.mul_0_r, N.add_0_r. rewrite b2n_n2b by lia. rewrite N.eqb_refl. reflexivity.
Qed.
(* a size byte that differs from the real payload length is refused *)
Theorem nested_packet_size_mismatch w id sl sz u payload :
  length u = 3%nat -> id < 2 ^ 32 -> b2n sz <> N.of_nat (length payload) ->
  step_class St w NestedProperty (le_encode 4 id ++ [sl] ++ [sz] ++ u ++ payload) = (w, Some EAssert).
Proof.
  intros Hu Hid Hne. cbn [step_class].
  rewrite (get_u_app 4) by (change (256 ^ N.of_nat 4) with (2 ^ 32); exact Hid). cbn [bind app].
  unfold get_s at 1. unfold need. cbn [split_exact bind le_decode].
  rewrite get_u1_cons. cbn [bind].
  rewrite read_upto_app by exact Hu. cbn [snd].
  destruct (N.eqb (N.of_nat (length payload)) (b2n sz)) eqn:E; [apply N.eqb_eq in E; congruence | reflexivity].
Qed.
End Apply.
Print Assumptions walk_encode_path.
Print Assumptions nested_packet_reaches_apply.
Print Assumptions nested_packet_size_mismatch.
Print Assumptions nested_apply_other_props.
