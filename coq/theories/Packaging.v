(* Model.Packaging: what `setup()` in setup.py ships (setuptools find_packages + build_py modules + package_data globs
   + scripts) over a directory tree, and what parsing needs.  Definitions only. *)
From RU Require Import Base.
Open Scope string_scope.

Inductive tree := File | Dir (kids : list (string * tree)).
Definition path := list string.

(* ---- fnmatch on one path component: '*' any run of characters, '?' one character ---- *)
Fixpoint glob_comp_fuel (fuel : nat) (pat s : string) : bool :=
  match fuel with
  | O => false
  | S f =>
    match pat with
    | EmptyString => match s with EmptyString => true | _ => false end
    | String "*" p' => glob_comp_fuel f p' s || match s with String _ s' => glob_comp_fuel f pat s' | EmptyString => false end
    | String "?" p' => match s with String _ s' => glob_comp_fuel f p' s' | EmptyString => false end
    | String c p' => match s with String d s' => Ascii.eqb c d && glob_comp_fuel f p' s' | EmptyString => false end
    end
  end.
Definition glob_comp (pat s : string) : bool := glob_comp_fuel (S (String.length pat + String.length s)) pat s.

(* ---- glob.glob(pattern, recursive=True) relative to a directory: '**' is zero or more path components ---- *)
Inductive pcomp := PStarStar | PGlob (g : string).
Fixpoint match_path (pat : list pcomp) (p : path) {struct pat} : bool :=
  match pat with
  | [] => match p with [] => true | _ => false end
  | PStarStar :: ps =>
      (fix skip (p : path) : bool := match_path ps p || match p with _ :: r => skip r | [] => false end) p
  | PGlob g :: ps => match p with x :: r => glob_comp g x && match_path ps r | [] => false end
  end.

(* ---- walking the tree ---- *)
Fixpoint files_fuel (fuel : nat) (t : tree) : list path :=
  match fuel with
  | O => []
  | S f => match t with
           | File => [[]]
           | Dir kids => flat_map (fun '(n, k) => map (cons n) (files_fuel f k)) kids
           end
  end.
Definition DEPTH := 16%nat.
Definition files (t : tree) : list path := files_fuel DEPTH t.
Definition has_file (name : string) (t : tree) : bool :=
  match t with Dir kids => existsb (fun '(n, k) => String.eqb n name && match k with File => true | _ => false end) kids | File => false end.
Fixpoint has_dot (s : string) : bool := match s with EmptyString => false | String c r => Ascii.eqb c "." || has_dot r end.
(* find_packages: a directory is a package iff it contains __init__.py, its name contains no '.', and its parent is a
   package (or the project root) *)
(* the walk goes on below an excluded package, but not below a directory that is not a package *)
Fixpoint packages_fuel (fuel : nat) (keep : path -> bool) (here : path) (t : tree) : list (path * tree) :=
  match fuel with
  | O => []
  | S f => match t with
           | File => []
           | Dir kids => flat_map (fun '(n, k) =>
               match k with
               | Dir _ => if negb (has_dot n) && has_file "__init__.py" k
                          then ((if keep (here ++ [n])%list then [((here ++ [n])%list, k)] else []) ++ packages_fuel f keep (here ++ [n])%list k)%list
                          else []
               | File => [] end) kids
           end
  end.
Fixpoint join_dots (p : path) : string := match p with [] => "" | [x] => x | x :: r => x ++ "." ++ join_dots r end.
(* find_packages(include=...): the dotted name must fnmatch one of the patterns.  NOTE setup.py passes a str, which
   setuptools iterates character by character - one of the characters is '*' *)
Definition included (include : list string) (p : path) : bool := existsb (fun pat => glob_comp pat (join_dots p)) include.
Definition packages (root : tree) (include : list string) : list (path * tree) := packages_fuel DEPTH (included include) [] root.

Definition ends_py (s : string) : bool := glob_comp "*.py" s.
(* what one package contributes: its own .py modules (build_py) and every file below it matched by a package_data glob *)
Definition package_files (globs : list (list pcomp)) (p : path * tree) : list path :=
  let '(here, t) := p in
  let below := files t in
  map (app here) (filter (fun f => (match f with [x] => ends_py x | _ => false end) || existsb (fun g => match_path g f) globs) below).
Definition shipped (root : tree) (include : list string) (globs : list (list pcomp)) (scripts : list path) : list path :=
  (flat_map (package_files globs) (packages root include) ++ scripts)%list.

Definition path_eqb (a b : path) : bool := Nat.eqb (length a) (length b) && forallb (fun '(x, y) => String.eqb x y) (combine a b).
Definition mem_path (p : path) (l : list path) : bool := existsb (path_eqb p) l.
(* what parsing can need: every module under the package, every definition file of every bundled version, the helper
   modules unpickled roster data refers to (fixtures), the command-line script *)
Definition needed_file (p : path) : bool :=
  match p with
  | "replay_unpack" :: rest =>
      match rev rest with
      | last :: _ => ends_py last || ((glob_comp "*.def" last || glob_comp "*.xml" last) && existsb (String.eqb "scripts") rest)
      | [] => false end
  | ["replay_parser.py"] => true
  | _ => false
  end.
(* needed and not shipped, computed in ONE walk: going down, keep for every enclosing reported package the path relative to
   it; a file is shipped iff relative to one of them it is a module (a single *.py component) or matches a data glob *)
Fixpoint missing_fuel (fuel : nat) (include : list string) (globs : list (list pcomp)) (scripts : list path)
                      (chain : bool) (here : path) (rels : list path) (t : tree) : list path :=
  match fuel with
  | O => []
  | S f =>
    match t with
    | File => []
    | Dir kids =>
      flat_map (fun '(n, k) =>
        let full := (here ++ [n])%list in
        match k with
        | File =>
            let shipped_here := existsb (fun r => let r' := (r ++ [n])%list in
                                           (match r' with [x] => ends_py x | _ => false end) || existsb (fun g => match_path g r') globs) rels
                                || mem_path full scripts in
            if needed_file full && negb shipped_here then [full] else []
        | Dir _ =>
            let pkg := chain && negb (has_dot n) && has_file "__init__.py" k in
            let rels' := (map (fun r => (r ++ [n])%list) rels ++ (if pkg && included include full then [[]] else []))%list in
            missing_fuel f include globs scripts pkg full rels' k
        end) kids
    end
  end.
Definition missing (root : tree) (include : list string) (globs : list (list pcomp)) (scripts : list path) : list path :=
  missing_fuel DEPTH include globs scripts true [] [] root.
