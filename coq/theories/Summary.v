(* Summary: the per-version battle controllers (clients/wows/versions/*/battle_controller.py, players_info.py) as programs of a
   small handler language, and its interpreter.  The PROGRAMS are not written here: tools/gen_controllers.py translates every bundled
   controller's handler bodies into this language on each run (build/gen/GenC09.v); this file fixes what the statements mean.
   Definitions only.

   Python values are [pyval]; dicts are insertion-ordered association lists (CPython >= 3.7).  A float is a dyadic rational m * 2^e
   added EXACTLY; the harness excludes (and counts) histories in which CPython's double addition would round. *)
From RU Require Import Base.
Local Open Scope Z_scope.

Inductive pyval :=
| PInt (z : Z) | PFloat (m e : Z) | PBool (b : bool) | PNone
| PBytes (b : bytes) | PStr (b : bytes)
| PList (l : list pyval) | PTuple (l : list pyval) | PDict (d : list (pyval * pyval))
| POpaque (s : string).

Definition pstr (s : string) : pyval := PStr (list_byte_of_string s).

Fixpoint bytes_eqb (a b : bytes) : bool :=
  match a, b with
  | [], [] => true
  | x :: a', y :: b' => Byte.eqb x y && bytes_eqb a' b'
  | _, _ => false
  end.

(* dyadic rationals: value m * 2^e; [fnorm] makes m odd (or 0 with e = 0) so that equal values have equal representations *)
Fixpoint strip_twos (fuel : nat) (m e : Z) : Z * Z :=
  match fuel with
  | O => (m, e)
  | S f => if (m =? 0) then (0, 0) else if Z.even m then strip_twos f (m / 2) (e + 1) else (m, e)
  end.
Definition fnorm (m e : Z) : Z * Z := strip_twos (S (Z.to_nat (Z.log2 (Z.abs m)))) m e.
Definition fadd (m1 e1 m2 e2 : Z) : Z * Z :=
  let e := Z.min e1 e2 in fnorm (m1 * 2 ^ (e1 - e) + m2 * 2 ^ (e2 - e)) e.
Definition mkfloat (m e : Z) : pyval := let '(m', e') := fnorm m e in PFloat m' e'.

(* structural equality; used for dict keys (ints, text, bytes, tuples) *)
Fixpoint pv_eqb (a b : pyval) : bool :=
  match a, b with
  | PInt x, PInt y => x =? y
  | PFloat m1 e1, PFloat m2 e2 => (m1 =? m2) && (e1 =? e2)
  | PBool x, PBool y => Bool.eqb x y
  | PNone, PNone => true
  | PBytes x, PBytes y => bytes_eqb x y
  | PStr x, PStr y => bytes_eqb x y
  | PList x, PList y | PTuple x, PTuple y =>
      (fix go (x y : list pyval) : bool :=
         match x, y with
         | [], [] => true
         | a :: x', b :: y' => pv_eqb a b && go x' y'
         | _, _ => false
         end) x y
  | PDict x, PDict y =>
      (fix go (x y : list (pyval * pyval)) : bool :=
         match x, y with
         | [], [] => true
         | (k1, v1) :: x', (k2, v2) :: y' => pv_eqb k1 k2 && pv_eqb v1 v2 && go x' y'
         | _, _ => false
         end) x y
  | POpaque x, POpaque y => String.eqb x y
  | _, _ => false
  end.

Definition pdict := list (pyval * pyval).
Fixpoint dget (k : pyval) (d : pdict) : option pyval :=
  match d with [] => None | (k', v) :: r => if pv_eqb k k' then Some v else dget k r end.
(* d[k] = v : in place when the key exists (its position is kept), appended otherwise *)
Fixpoint dset (k v : pyval) (d : pdict) : pdict :=
  match d with
  | [] => [(k, v)]
  | (k', v') :: r => if pv_eqb k k' then (k', v) :: r else (k', v') :: dset k v r
  end.
Definition dupdate (d src : pdict) : pdict := fold_left (fun acc kv => dset (fst kv) (snd kv) acc) src d.

(* core/unicoding.py: bytes that are valid UTF-8 become text; lists and dicts are walked (a dict comprehension: keys that collide after
   decoding are merged, last value wins); everything else - tuples too - is returned as it is *)
Fixpoint unicodize (v : pyval) : pyval :=
  match v with
  | PBytes b => if utf8_valid b then PStr b else PBytes b
  | PList l => PList (map unicodize l)
  | PDict d => PDict (fold_left (fun acc kv => let '(k, x) := kv in dset (unicodize k) (unicodize x) acc) d [])
  | _ => v
  end.

(* ---- the handler language ---- *)
Inductive expr :=
| EVar (x : string)                     (* a parameter or a loop / local variable *)
| EEntId                                (* <entity>.id of the entity the method was called on *)
| EProps                                (* <entity>.properties['client'] *)
| EBL                                   (* self.battle_logic.properties['client'] *)
| EPlayers                              (* self._players.get_info() *)
| EField (f : string)                   (* self._f *)
| EStrC (s : string) | EIntC (z : Z)
| EIdx (e k : expr)                     (* e[k] *)
| EAdd (a b : expr)
| ELen (e : expr)
| ETup (l : list expr).

Inductive sstmt :=
| SAppend (f : string) (e : expr)                         (* self._f.append(e) *)
| SSetdef (f : string) (keys : list expr)                 (* self._f.setdefault(k1, {})...setdefault(kn, 0) *)
| SAugAdd (f : string) (keys : list expr) (e : expr)      (* self._f[k1]...[kn] += e *)
| SAssign (f : string) (e : expr)                         (* self._f = e *)
| SAssignDict (f : string) (items : list (string * expr)) (* self._f = dict(a=e1, b=e2) *)
| SLet (x : string) (e : expr)                            (* x = e *)
| SRoster (e : expr) (ptype : N)                          (* self._players.create_or_update_players(pickle.loads(e, ...), ptype) *)
| SMapStrip (e : expr)                                    (* self._map = e.lstrip('spaces/') *)
| SMapPrefix (e : expr).                                  (* self._map = e[len('spaces/'):] if e.startswith('spaces/') else e *)
Inductive stmt :=
| Simple (s : sstmt)
| SFor (x : string) (e : expr) (body : list sstmt).       (* for x in e: body *)

Record handler := { h_params : list string; h_body : list stmt }.
Record controller := {
  c_init : list (string * pyval);                 (* the fields __init__ creates *)
  c_handlers : list (string * handler);           (* "Entity_method" -> handler, as subscribed in __init__ *)
  c_maps : list (N * list (Z * string));          (* player type -> id_property_map of constants.py *)
  c_unicodize : bool;                             (* players_info.py passes every value through unicodize *)
  c_info : list (string * string)                 (* get_info(): result key -> field, for the entries that are plain  key=self._field *)
}.

Record event := {
  ev_key : string; ev_id : Z;
  ev_pos : list pyval; ev_kw : list (string * pyval);     (* the decoded arguments: unnamed ones positionally, named ones by name *)
  ev_props : pdict;                                        (* client properties of the entity at the time of the call *)
  ev_bl : pdict                                            (* client properties of the BattleLogic entity at that time *)
}.

Record cstate := { st_fields : list (string * pyval); st_players : pdict }.

Record ctx := { cx_ev : event; cx_locals : list (string * pyval); cx_st : cstate }.

(* Python sequence indexing with negative indices *)
Definition seq_index (l : list pyval) (i : Z) : result pyval :=
  let n := Z.of_nat (length l) in
  let j := if i <? 0 then i + n else i in
  if (j <? 0) || (n <=? j) then Err EIndex else
  match nthN l (Z.to_N j) with Some v => Ok v | None => Err EIndex end.

Definition py_add (a b : pyval) : result pyval :=
  match a, b with
  | PInt x, PInt y => Ok (PInt (x + y))
  | PInt x, PFloat m e | PFloat m e, PInt x => let '(m', e') := fadd x 0 m e in Ok (PFloat m' e')
  | PFloat m1 e1, PFloat m2 e2 => let '(m', e') := fadd m1 e1 m2 e2 in Ok (PFloat m' e')
  | PBool x, PInt y | PInt y, PBool x => Ok (PInt ((if x then 1 else 0) + y))
  | _, _ => Err EType
  end.

Fixpoint eval (c : ctx) (e : expr) : result pyval :=
  match e with
  | EVar x => match assoc_get x (cx_locals c) with Some v => Ok v | None => Err EOther end
  | EEntId => Ok (PInt (ev_id (cx_ev c)))
  | EProps => Ok (PDict (ev_props (cx_ev c)))
  | EBL => Ok (PDict (ev_bl (cx_ev c)))
  | EPlayers => Ok (PDict (st_players (cx_st c)))
  | EField f => match assoc_get f (st_fields (cx_st c)) with Some v => Ok v | None => Err EOther end
  | EStrC s => Ok (pstr s)
  | EIntC z => Ok (PInt z)
  | EIdx a k =>
      v <- eval c a ;; kk <- eval c k ;;
      match v with
      | PDict d => match dget kk d with Some x => Ok x | None => Err EKey end
      | PList l | PTuple l => match kk with PInt i => seq_index l i | PBool b => seq_index l (if b then 1 else 0) | _ => Err EType end
      | _ => Err EType
      end
  | EAdd a b => x <- eval c a ;; y <- eval c b ;; py_add x y
  | ELen a => v <- eval c a ;;
      match v with
      | PList l | PTuple l => Ok (PInt (Z.of_nat (length l)))
      | PDict d => Ok (PInt (Z.of_nat (length d)))
      | PBytes b | PStr b => Ok (PInt (Z.of_nat (length b)))     (* text: only ASCII text is measured by the bundled handlers *)
      | _ => Err EType
      end
  | ETup l =>
      match (fix go (l : list expr) : result (list pyval) :=
               match l with [] => Ok [] | a :: r => x <- eval c a ;; xs <- go r ;; Ok (x :: xs) end) l with
      | Ok xs => Ok (PTuple xs)
      | Err er => Err er
      end
  end.

Fixpoint eval_list (c : ctx) (l : list expr) : result (list pyval) :=
  match l with [] => Ok [] | a :: r => x <- eval c a ;; xs <- eval_list c r ;; Ok (x :: xs) end.

(* d.setdefault(k1, {}).setdefault(k2, {})...setdefault(kn, 0): returns the new d *)
Fixpoint setdef_chain (d : pdict) (ks : list pyval) : result pdict :=
  match ks with
  | [] => Ok d
  | [k] => match dget k d with Some _ => Ok d | None => Ok (dset k (PInt 0) d) end
  | k :: ks' =>
      match dget k d with
      | Some (PDict inner) => inner' <- setdef_chain inner ks' ;; Ok (dset k (PDict inner') d)
      | Some _ => Err EType                                   (* the existing value has no setdefault *)
      | None => inner' <- setdef_chain [] ks' ;; Ok (dset k (PDict inner') d)
      end
  end.
(* d[k1]...[kn] += x *)
Fixpoint augadd_chain (d : pdict) (ks : list pyval) (x : pyval) : result pdict :=
  match ks with
  | [] => Err EOther
  | [k] => match dget k d with Some old => v <- py_add old x ;; Ok (dset k v d) | None => Err EKey end
  | k :: ks' =>
      match dget k d with
      | Some (PDict inner) => inner' <- augadd_chain inner ks' x ;; Ok (dset k (PDict inner') d)
      | Some _ => Err EType
      | None => Err EKey
      end
  end.

(* ---- players_info.py ---- *)
(* for key, value in player_info: ... ; each item must unpack into exactly two *)
Definition convert_item (umap : list (Z * string)) (uni : bool) (acc : pdict) (item : pyval) : result pdict :=
  match item with
  | PTuple [k; v] | PList [k; v] =>
      let v' := if uni then unicodize v else v in
      match k with
      | PInt i => match zassoc_get i umap with Some name => Ok (dset (pstr name) v' acc) | None => Err EKey end
      | PBool b => match zassoc_get (if b then 1 else 0) umap with Some name => Ok (dset (pstr name) v' acc) | None => Err EKey end
      | _ => Err EKey
      end
  | PTuple _ | PList _ => Err EValue
  | _ => Err EType
  end.
Fixpoint convert_items (umap : list (Z * string)) (uni : bool) (acc : pdict) (items : list pyval) : result pdict :=
  match items with [] => Ok acc | it :: r => acc' <- convert_item umap uni acc it ;; convert_items umap uni acc' r end.
Definition seq_items (v : pyval) : result (list pyval) :=
  match v with PList l | PTuple l => Ok l | _ => Err EType end.
(* one record: self._players.setdefault(player_dict['id'], {}).update(player_dict) *)
Definition merge_record (umap : list (Z * string)) (uni : bool) (players : pdict) (rec : pyval) : result pdict :=
  items <- seq_items rec ;;
  pd <- convert_items umap uni [] items ;;
  match dget (pstr "id") pd with
  | None => Err EKey
  | Some pid =>
      match dget pid players with
      | Some (PDict old) => Ok (dset pid (PDict (dupdate old pd)) players)
      | Some _ => Err EType
      | None => Ok (dset pid (PDict (dupdate [] pd)) players)
      end
  end.
(* records are merged one by one; a record that fails stops the loop and keeps what was merged before it *)
Fixpoint merge_records (umap : list (Z * string)) (uni : bool) (players : pdict) (recs : list pyval) : pdict * option error :=
  match recs with
  | [] => (players, None)
  | r :: rest => match merge_record umap uni players r with
                 | Ok p' => merge_records umap uni p' rest
                 | Err e => (players, Some e)
                 end
  end.

(* str.lstrip(chars): drops leading characters that are IN THE SET chars *)
Fixpoint lstrip_set (set : bytes) (s : bytes) : bytes :=
  match s with
  | [] => []
  | b :: r => if existsb (Byte.eqb b) set then lstrip_set set r else s
  end.
Definition spaces_set : bytes := list_byte_of_string "spaces/".
(* what the statement asks for: the name without the "spaces/" prefix *)
Fixpoint strip_prefix (p s : bytes) : option bytes :=
  match p, s with
  | [], _ => Some s
  | a :: p', b :: s' => if Byte.eqb a b then strip_prefix p' s' else None
  | _ :: _, [] => None
  end.
Definition remove_prefix (p s : bytes) : bytes := match strip_prefix p s with Some r => r | None => s end.

(* ---- statements ---- *)
Definition set_field (st : cstate) (f : string) (v : pyval) : cstate :=
  {| st_fields := assoc_set f v (st_fields st); st_players := st_players st |}.
Definition get_dict_field (st : cstate) (f : string) : result pdict :=
  match assoc_get f (st_fields st) with Some (PDict d) => Ok d | Some _ => Err EType | None => Err EOther end.

Fixpoint eval_items (c : ctx) (items : list (string * expr)) : result pdict :=
  match items with
  | [] => Ok []
  | (k, e) :: r => v <- eval c e ;; rest <- eval_items c r ;; Ok ((pstr k, v) :: rest)
  end.

Fixpoint map_for (l : list (N * list (Z * string))) (pt : N) : option (list (Z * string)) :=
  match l with [] => None | (k, m) :: r => if (k =? pt)%N then Some m else map_for r pt end.

(* one simple statement: new locals and state, and the exception if it raises (the state then holds what was done before) *)
Definition exec_s (ctl : controller) (c : ctx) (s : sstmt) : list (string * pyval) * cstate * option error :=
  let st := cx_st c in let loc := cx_locals c in
  match s with
  | SAppend f e =>
      match eval c e with
      | Err er => (loc, st, Some er)
      | Ok v => match assoc_get f (st_fields st) with
                | Some (PList l) => (loc, set_field st f (PList (l ++ [v])%list), None)
                | Some _ => (loc, st, Some EType)
                | None => (loc, st, Some EOther)
                end
      end
  | SSetdef f keys =>
      match eval_list c keys with
      | Err er => (loc, st, Some er)
      | Ok ks => match get_dict_field st f with
                 | Err er => (loc, st, Some er)
                 | Ok d => match setdef_chain d ks with Ok d' => (loc, set_field st f (PDict d'), None) | Err er => (loc, st, Some er) end
                 end
      end
  | SAugAdd f keys e =>
      match eval_list c keys with
      | Err er => (loc, st, Some er)
      | Ok ks =>
        match get_dict_field st f with
        | Err er => (loc, st, Some er)
        | Ok d =>
            (* Python evaluates the target's container and old value first, then the right-hand side *)
            match eval c e with
            | Err er => (loc, st, Some er)
            | Ok x => match augadd_chain d ks x with Ok d' => (loc, set_field st f (PDict d'), None) | Err er => (loc, st, Some er) end
            end
        end
      end
  | SAssign f e => match eval c e with Ok v => (loc, set_field st f v, None) | Err er => (loc, st, Some er) end
  | SAssignDict f items => match eval_items c items with Ok d => (loc, set_field st f (PDict d), None) | Err er => (loc, st, Some er) end
  | SLet x e => match eval c e with Ok v => (assoc_set x v loc, st, None) | Err er => (loc, st, Some er) end
  | SRoster e pt =>
      match eval c e with
      | Err er => (loc, st, Some er)
      | Ok v =>
        match seq_items v with
        | Err er => (loc, st, Some er)
        | Ok recs =>
          match map_for (c_maps ctl) pt with
          | None => (loc, st, Some ERuntime)
          | Some umap => let '(p', er) := merge_records umap (c_unicodize ctl) (st_players st) recs in
                         (loc, {| st_fields := st_fields st; st_players := p' |}, er)
          end
        end
      end
  | SMapStrip e =>
      match eval c e with
      | Ok (PStr b) => (loc, set_field st "_map" (PStr (lstrip_set spaces_set b)), None)
      | Ok _ => (loc, st, Some EOther)
      | Err er => (loc, st, Some er)
      end
  | SMapPrefix e =>
      match eval c e with
      | Ok (PStr b) => (loc, set_field st "_map" (PStr (remove_prefix spaces_set b)), None)
      | Ok _ => (loc, st, Some EOther)
      | Err er => (loc, st, Some er)
      end
  end.

Fixpoint exec_ss (ctl : controller) (ev : event) (loc : list (string * pyval)) (st : cstate) (ss : list sstmt)
  : list (string * pyval) * cstate * option error :=
  match ss with
  | [] => (loc, st, None)
  | s :: r => let '(loc', st', er) := exec_s ctl {| cx_ev := ev; cx_locals := loc; cx_st := st |} s in
              match er with Some _ => (loc', st', er) | None => exec_ss ctl ev loc' st' r end
  end.

Fixpoint exec_for (ctl : controller) (ev : event) (x : string) (loc : list (string * pyval)) (st : cstate) (items : list pyval) (body : list sstmt)
  : list (string * pyval) * cstate * option error :=
  match items with
  | [] => (loc, st, None)
  | it :: r => let '(loc', st', er) := exec_ss ctl ev (assoc_set x it loc) st body in
               match er with Some _ => (loc', st', er) | None => exec_for ctl ev x loc' st' r body end
  end.

Definition exec_stmt (ctl : controller) (ev : event) (loc : list (string * pyval)) (st : cstate) (s : stmt)
  : list (string * pyval) * cstate * option error :=
  match s with
  | Simple s' => exec_s ctl {| cx_ev := ev; cx_locals := loc; cx_st := st |} s'
  | SFor x e body =>
      match eval {| cx_ev := ev; cx_locals := loc; cx_st := st |} e with
      | Err er => (loc, st, Some er)
      | Ok v => match v with
                | PList l | PTuple l => exec_for ctl ev x loc st l body
                | PDict d => exec_for ctl ev x loc st (map fst d) body
                | _ => (loc, st, Some EType)
                end
      end
  end.

Fixpoint exec_body (ctl : controller) (ev : event) (loc : list (string * pyval)) (st : cstate) (b : list stmt)
  : list (string * pyval) * cstate * option error :=
  match b with
  | [] => (loc, st, None)
  | s :: r => let '(loc', st', er) := exec_stmt ctl ev loc st s in
              match er with Some _ => (loc', st', er) | None => exec_body ctl ev loc' st' r end
  end.

(* func(entity, *args, **kwargs): positional parameters first, the rest by name; anything missing, left over or given twice is a TypeError *)
Fixpoint bind_pos (params : list string) (pos : list pyval) : option (list (string * pyval) * list string) :=
  match pos, params with
  | [], _ => Some ([], params)
  | v :: pr, p :: ps => match bind_pos ps pr with Some (b, rest) => Some ((p, v) :: b, rest) | None => None end
  | _ :: _, [] => None
  end.
Fixpoint bind_kw (rest : list string) (kw : list (string * pyval)) : option (list (string * pyval)) :=
  match rest with
  | [] => match kw with [] => Some [] | _ => None end
  | p :: ps => match assoc_get p kw with
               | None => None
               | Some v => match bind_kw ps (filter (fun kv => negb (String.eqb (fst kv) p)) kw) with
                           | Some b => Some ((p, v) :: b) | None => None end
               end
  end.
Definition bind_args (h : handler) (ev : event) : option (list (string * pyval)) :=
  match bind_pos (h_params h) (ev_pos ev) with
  | None => None
  | Some (b, rest) => match bind_kw rest (ev_kw ev) with Some b2 => Some (b ++ b2)%list | None => None end
  end.

(* one delivered method call; an event nobody handles changes nothing *)
Definition apply_event (ctl : controller) (st : cstate) (ev : event) : cstate * option error :=
  match assoc_get (ev_key ev) (c_handlers ctl) with
  | None => (st, None)
  | Some h => match bind_args h ev with
              | None => (st, Some EType)
              | Some loc => let '(_, st', er) := exec_body ctl ev loc st (h_body h) in (st', er)
              end
  end.

Definition init_state (ctl : controller) : cstate := {| st_fields := c_init ctl; st_players := [] |}.

(* lenient play: a failing call is logged and the next one is delivered; the errors are collected *)
Fixpoint run_events (ctl : controller) (st : cstate) (evs : list event) : cstate * list error :=
  match evs with
  | [] => (st, [])
  | ev :: r => let '(st', er) := apply_event ctl st ev in
               let '(stf, ers) := run_events ctl st' r in
               (stf, match er with Some e => e :: ers | None => ers end)
  end.
(* strict play stops at the first failing call *)
Fixpoint run_events_strict (ctl : controller) (st : cstate) (evs : list event) : cstate * option error :=
  match evs with
  | [] => (st, None)
  | ev :: r => let '(st', er) := apply_event ctl st ev in
               match er with Some e => (st', Some e) | None => run_events_strict ctl st' r end
  end.

(* get_info(): the entries that are plain fields, and the roster *)
Definition summary (ctl : controller) (st : cstate) : list (string * pyval) :=
  (map (fun kf => (fst kf, match assoc_get (snd kf) (st_fields st) with Some v => v | None => PNone end)) (c_info ctl)
   ++ [("players"%string, PDict (st_players st))])%list.
