(* C04: the order in which a .def file lists its top-level sections (Implements, Properties, ClientMethods, Volatile, CellMethods, ...)
   is irrelevant - only the order INSIDE each section counts.  For every permutation of the children of a definition node whose tags are
   pairwise distinct (a well-formed .def: each section once), the entity model is the same. *)
From RU Require Import Base Types Defs.
From Coq Require Import Permutation.
Open Scope string_scope.

Lemma find_child_notin tag l : ~ In tag (map tag_of l) -> find_child tag l = None.
Proof.
  induction l as [|n r IH]; intros H; cbn [find_child]; [reflexivity|].
  destruct (String.eqb (tag_of n) tag) eqn:E.
  - apply String.eqb_eq in E. exfalso. apply H. left. exact E.
  - apply IH. intros Hin. apply H. right. exact Hin.
Qed.

Lemma find_child_perm tag : forall l l', Permutation l l' -> NoDup (map tag_of l) -> find_child tag l = find_child tag l'.
Proof.
  intros l l' P. induction P as [|x l l' P IH|x y l|l l' l'' P1 IH1 P2 IH2]; intros ND.
  - reflexivity.
  - cbn [find_child]. destruct (String.eqb (tag_of x) tag); [reflexivity|]. apply IH. inversion ND; assumption.
  - cbn [find_child]. destruct (String.eqb (tag_of y) tag) eqn:Ey; destruct (String.eqb (tag_of x) tag) eqn:Ex; try reflexivity.
    apply String.eqb_eq in Ey, Ex. exfalso. cbn [map] in ND. inversion ND as [|a b Hn _]; subst. apply Hn. left. congruence.
  - rewrite IH1 by exact ND. apply IH2. apply (Permutation_NoDup (Permutation_map tag_of P1) ND).
Qed.

Section WithConfig.
Variable cfg : config.
Variable al : list (string * node).
Variable ifaces : list (string * node).

Lemma absorb_child_ext n n' a : (forall tag, child n tag = child n' tag) -> absorb cfg al n a = absorb cfg al n' a.
Proof. intros H. unfold absorb. rewrite !H. reflexivity. Qed.

Lemma collect_child_ext fuel n n' a : (forall tag, child n tag = child n' tag) ->
  collect cfg al ifaces fuel n a = collect cfg al ifaces fuel n' a.
Proof.
  intros H. destruct fuel as [|f]; [reflexivity|]. cbn [collect]. rewrite H.
  destruct (child n' "Implements") as [imp|]; cbn [bind];
    match goal with |- context [absorb _ _ n _] => idtac end.
  - match goal with |- bind ?X _ = bind ?X _ => destruct X as [a1|e]; cbn [bind]; [apply absorb_child_ext; exact H | reflexivity] end.
  - apply absorb_child_ext; exact H.
Qed.

Theorem section_order_irrelevant tag text kids kids' :
  Permutation kids kids' -> NoDup (map tag_of kids) ->
  entity_model cfg al ifaces (Node tag text kids) = entity_model cfg al ifaces (Node tag text kids').
Proof.
  intros P ND. unfold entity_model.
  rewrite (collect_child_ext FUEL (Node tag text kids) (Node tag text kids')); [reflexivity|].
  intros t. unfold child. cbn [kids_of]. apply find_child_perm; assumption.
Qed.
End WithConfig.
Print Assumptions section_order_irrelevant.
