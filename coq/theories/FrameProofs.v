From RU Require Import Base Types Defs World TypesProofs.
From Coq Require Import Lia.
Open Scope N_scope.

Definition wf_packet (p : packet) : Prop :=
  pk_type p < 2 ^ 32 /\ length (pk_time p) = 4%nat /\ N.of_nat (length (pk_payload p)) < 2 ^ 32.
Definition enc_header (p : packet) : bytes :=
  le_encode 4 (N.of_nat (length (pk_payload p))) ++ le_encode 4 (pk_type p) ++ pk_time p.
Definition enc_packet (p : packet) : bytes := enc_header p ++ pk_payload p.
Fixpoint enc_all (ps : list packet) : bytes :=
  match ps with [] => [] | p :: r => enc_packet p ++ enc_all r end.

Lemma enc_header_len p : wf_packet p -> length (enc_header p) = 12%nat.
Proof. intros (_ & Ht & _). unfold enc_header. rewrite !app_length, !le_encode_length, Ht. reflexivity. Qed.
Lemma enc_packet_len p : wf_packet p -> length (enc_packet p) = (12 + length (pk_payload p))%nat.
Proof. intros H. unfold enc_packet. rewrite app_length, enc_header_len by exact H. reflexivity. Qed.

Definition hdr_parse (bs : bytes) :=
  '(sz, r1) <- get_u 4 bs ;; '(ty, r2) <- get_u 4 r1 ;; '(tm, r3) <- need 4 r2 ;; Ok (sz, ty, tm, r3).

Lemma hdr_parse_enc p rest : wf_packet p ->
  hdr_parse (enc_header p ++ rest) = Ok (N.of_nat (length (pk_payload p)), pk_type p, pk_time p, rest).
Proof.
  intros (Hty & Htm & Hpl). unfold hdr_parse, enc_header. rewrite <- !app_assoc.
  rewrite (get_u_app 4) by (change (256 ^ N.of_nat 4) with (2 ^ 32); exact Hpl). cbn [bind].
  rewrite (get_u_app 4) by (change (256 ^ N.of_nat 4) with (2 ^ 32); exact Hty). cbn [bind].
  rewrite need_app by exact Htm. reflexivity.
Qed.

Lemma frames_step fuel p rest : wf_packet p ->
  frames_fuel (S fuel) (enc_packet p ++ rest) =
  let '(ps, t) := frames_fuel fuel rest in (p :: ps, t).
Proof.
  intros Hp. cbn [frames_fuel].
  destruct (enc_packet p ++ rest) eqn:E.
  { apply (f_equal (@length byte)) in E. rewrite app_length, enc_packet_len in E by exact Hp. cbn in E. lia. }
  rewrite <- E. clear E. unfold enc_packet. rewrite <- app_assoc.
  fold (hdr_parse (enc_header p ++ pk_payload p ++ rest)). rewrite hdr_parse_enc by exact Hp.
  rewrite read_uptoN_app. destruct (frames_fuel fuel rest). destruct p; reflexivity.
Qed.

Lemma frames_fuel_enc : forall ps fuel, Forall wf_packet ps -> (length ps < fuel)%nat ->
  frames_fuel fuel (enc_all ps) = (ps, Clean).
Proof.
  induction ps as [|p ps IH]; intros fuel Hwf Hf.
  - destruct fuel; [lia|]. reflexivity.
  - destruct fuel; [cbn in Hf; lia|]. inversion Hwf as [|? ? Hp Hps]; subst.
    cbn [enc_all]. rewrite frames_step by exact Hp. rewrite IH by (auto; cbn in Hf; lia). reflexivity.
Qed.

Lemma enc_all_len ps : Forall wf_packet ps -> (12 * length ps <= length (enc_all ps))%nat.
Proof.
  induction 1 as [|p ps Hp _ IH]; cbn [enc_all length]; [lia|]. rewrite app_length, enc_packet_len by exact Hp. lia.
Qed.

(* C02: every packet exactly once, in stream order, with exactly its type, timestamp and payload *)
Theorem frames_enc ps : Forall wf_packet ps -> frames (enc_all ps) = (ps, Clean).
Proof.
  intros H. unfold frames. apply frames_fuel_enc; [exact H|]. pose proof (enc_all_len ps H). lia.
Qed.

(* a header cut after 1..11 bytes: the packets before it are delivered unchanged and the stream ends in HeaderCut *)
Theorem frames_cut_header ps junk : Forall wf_packet ps -> (0 < length junk < 12)%nat ->
  frames (enc_all ps ++ junk) = (ps, HeaderCut).
Proof.
  intros Hps Hj. unfold frames.
  assert (Hfuel : forall fuel, (length ps < fuel)%nat -> frames_fuel fuel (enc_all ps ++ junk) = (ps, HeaderCut)).
  { induction ps as [|p ps IH]; intros fuel Hf.
    - destruct fuel; [lia|]. cbn [enc_all app frames_fuel].
      destruct junk as [|b junk']; [cbn in Hj; lia|].
      fold (hdr_parse (b :: junk')).
      assert (E : exists e, hdr_parse (b :: junk') = Err e).
      { unfold hdr_parse, get_u, need.
        destruct (split_exact 4 (b :: junk')) as [[l1 r1]|] eqn:E1; cbn [bind]; [|eauto].
        assert (L1 : (length (b :: junk') = 4 + length r1)%nat).
        { clear -E1. revert E1. generalize (b :: junk'). intros l E1.
          assert (G : forall n l a r, split_exact n l = Some (a, r) -> length l = (n + length r)%nat).
          { induction n as [|n IHn]; intros l0 a r H; cbn in H.
            - inversion H; subst. reflexivity.
            - destruct l0 as [|x l0]; [discriminate|]. destruct (split_exact n l0) as [[a' r']|] eqn:E; [|discriminate].
              inversion H; subst. cbn. f_equal. eapply IHn; eauto. }
          eapply G; eauto. }
        destruct (split_exact 4 r1) as [[l2 r2]|] eqn:E2; cbn [bind]; [|eauto].
        assert (L2 : (length r1 = 4 + length r2)%nat).
        { assert (G : forall n l a r, split_exact n l = Some (a, r) -> length l = (n + length r)%nat).
          { induction n as [|n IHn]; intros l0 a r H; cbn in H.
            - inversion H; subst. reflexivity.
            - destruct l0 as [|x l0]; [discriminate|]. destruct (split_exact n l0) as [[a' r']|] eqn:E; [|discriminate].
              inversion H; subst. cbn. f_equal. eapply IHn; eauto. }
          eapply G; eauto. }
        destruct (split_exact 4 r2) as [[l3 r3]|] eqn:E3; cbn [bind]; [|eauto].
        exfalso.
        assert (L3 : (length r2 = 4 + length r3)%nat).
        { assert (G : forall n l a r, split_exact n l = Some (a, r) -> length l = (n + length r)%nat).
          { induction n as [|n IHn]; intros l0 a r H; cbn in H.
            - inversion H; subst. reflexivity.
            - destruct l0 as [|x l0]; [discriminate|]. destruct (split_exact n l0) as [[a' r']|] eqn:E; [|discriminate].
              inversion H; subst. cbn. f_equal. eapply IHn; eauto. }
          eapply G; eauto. }
        lia. }
      destruct E as [e E]. rewrite E. reflexivity.
    - destruct fuel; [cbn in Hf; lia|]. inversion Hps as [|? ? Hp Hps']; subst.
      cbn [enc_all]. rewrite <- app_assoc. rewrite frames_step by exact Hp.
      rewrite IH by (auto; cbn in Hf; lia). reflexivity. }
  apply Hfuel. rewrite app_length. pose proof (enc_all_len ps Hps). lia.
Qed.

(* the last payload cut short (fewer bytes than its header announces): BytesIO.read returns what is there *)
Theorem frames_cut_payload ps p k : Forall wf_packet ps -> wf_packet p -> (k <= length (pk_payload p))%nat ->
  frames (enc_all ps ++ enc_header p ++ firstn k (pk_payload p)) =
  (ps ++ [{| pk_type := pk_type p; pk_time := pk_time p; pk_payload := firstn k (pk_payload p) |}], Clean).
Proof.
  intros Hps Hp Hk. unfold frames.
  assert (Hfuel : forall fuel, (length ps + 1 < fuel)%nat ->
     frames_fuel fuel (enc_all ps ++ enc_header p ++ firstn k (pk_payload p)) =
     (ps ++ [{| pk_type := pk_type p; pk_time := pk_time p; pk_payload := firstn k (pk_payload p) |}], Clean)).
  { induction ps as [|q ps IH]; intros fuel Hf.
    - destruct fuel as [|[|fuel]]; [cbn in Hf; lia|cbn in Hf; lia|]. cbn [enc_all app].
      cbn [frames_fuel].
      destruct (enc_header p ++ firstn k (pk_payload p)) eqn:E.
      { apply (f_equal (@length byte)) in E. rewrite app_length, enc_header_len in E by exact Hp. cbn in E. lia. }
      rewrite <- E. clear E.
      fold (hdr_parse (enc_header p ++ firstn k (pk_payload p))). rewrite hdr_parse_enc by exact Hp.
      rewrite read_uptoN_spec, Nat2N.id. unfold read_upto.
      assert (Hl : (length (firstn k (pk_payload p)) <= length (pk_payload p))%nat) by (rewrite firstn_length; lia).
      rewrite (firstn_all2 _ Hl), (skipn_all2 _ Hl). reflexivity.
    - destruct fuel; [cbn in Hf; lia|]. inversion Hps as [|? ? Hq Hps']; subst.
      cbn [enc_all]. rewrite <- app_assoc. rewrite frames_step by exact Hq.
      rewrite IH by (auto; cbn in Hf; lia). reflexivity. }
  apply Hfuel. rewrite !app_length, enc_header_len by exact Hp. pose proof (enc_all_len ps Hps). lia.
Qed.

(* C02/C15: the budget is never exhausted - framing terminates within (bytes / 12) + 1 iterations *)
Theorem frames_fuel_enough : forall fuel bs, (length bs < fuel)%nat -> snd (frames_fuel fuel bs) <> OutOfFuel.
Proof.
  induction fuel as [|fuel IH]; intros bs Hf; [lia|].
  cbn [frames_fuel]. destruct bs as [|b bs']; [cbn; discriminate|].
  fold (hdr_parse (b :: bs')).
  destruct (hdr_parse (b :: bs')) as [[[[sz ty] tm] r3]|e] eqn:E; [|cbn; discriminate].
  assert (Hr3 : (length r3 < length (b :: bs'))%nat).
  { unfold hdr_parse, get_u, need in E.
    assert (G : forall n l a r, split_exact n l = Some (a, r) -> length l = (n + length r)%nat).
    { induction n as [|n IHn]; intros l0 a r H; cbn in H.
      - inversion H; subst. reflexivity.
      - destruct l0 as [|x l0]; [discriminate|]. destruct (split_exact n l0) as [[a' r']|] eqn:E0; [|discriminate].
        inversion H; subst. cbn. f_equal. eapply IHn; eauto. }
    destruct (split_exact 4 (b :: bs')) as [[l1 r1]|] eqn:E1; cbn [bind] in E; [|discriminate].
    destruct (split_exact 4 r1) as [[l2 r2]|] eqn:E2; cbn [bind] in E; [|discriminate].
    destruct (split_exact 4 r2) as [[l3 r3']|] eqn:E3; cbn [bind] in E; [|discriminate].
    inversion E; subst. apply G in E1. apply G in E2. apply G in E3. lia. }
  rewrite read_uptoN_spec. unfold read_upto. destruct (frames_fuel fuel (skipn (N.to_nat sz) r3)) as [rest t] eqn:Er. cbn [snd].
  specialize (IH (skipn (N.to_nat sz) r3)). rewrite Er in IH. cbn [snd] in IH. apply IH.
  rewrite skipn_length. cbn [length] in *. lia.
Qed.
Print Assumptions frames_enc.
Print Assumptions frames_cut_payload.
Print Assumptions frames_cut_header.
Print Assumptions frames_fuel_enough.

