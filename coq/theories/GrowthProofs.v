(* C15 at the nested reader: one nested-change packet makes a list longer by at most the number of payload bytes it carries (plus one).
   The bounds of a slice packet do not enter the estimate at all - a bound past the end of the list is clamped (Python slice assignment), it
   never pads - so no run of tiny packets can make a list grow geometrically; and a single-element change keeps the length. *)
From RU Require Import Base Types Defs BitReader World.
From Coq Require Import Lia.
Open Scope nat_scope.

Lemma decode_all_length : forall fuel t bs vs, decode_all fuel t bs = Ok vs -> length vs < fuel.
Proof.
  induction fuel as [|f IH]; intros t bs vs H; cbn [decode_all] in H; [discriminate|].
  destruct bs as [|b bs']; [injection H as <-; cbn; lia|].
  destruct (decode 1 t (b :: bs')) as [[v r]|e]; cbn [bind] in H; [|discriminate].
  destruct (decode_all f t r) as [vs'|e] eqn:E; cbn [bind] in H; [|discriminate].
  injection H as <-. apply IH in E. cbn [length]. lia.
Qed.

Lemma slice_assign_length {A} i j (xs l : list A) : length (slice_assign i j xs l) <= length l + length xs.
Proof. unfold slice_assign. rewrite !app_length, firstn_length, skipn_length. lia. Qed.

Lemma replace_nth_length {A} (x : A) : forall l i, length (replace_nth i x l) = length l.
Proof. induction l as [|y l IH]; intros [|i]; cbn [replace_nth length]; auto. Qed.

Lemma br_get_src n r v r' : br_get n r = Ok (v, r') -> br_src r' = br_src r.
Proof.
  unfold br_get. destruct (br_get_loop n 0 (br_bits r)) as [[v0 bits]|e]; cbn [bind]; [|discriminate].
  intros H. injection H as _ <-. reflexivity.
Qed.
Lemma br_rest_length r : length (br_rest r) <= length (br_src r).
Proof. unfold br_rest. rewrite skipn_length. lia. Qed.

Theorem leaf_op_list_growth is_slice et l r v nm b :
  leaf_op is_slice (VList et l) r = Ok (v, nm, b) ->
  exists l', v = VList et l' /\ length l' <= length l + length (br_src r)
             /\ (is_slice = false -> length l' = length l).
Proof.
  unfold leaf_op.
  set (w := if is_slice then bits_required (length l + 1) else bits_required (length l)).
  destruct (br_get w r) as [[i1 r1]|e] eqn:E1; cbn [bind]; [|discriminate].
  assert (S1 : br_src r1 = br_src r) by (eapply br_get_src; eauto).
  destruct (if is_slice then br_get w r1 else Ok (0%N, r1)) as [[i2 r2]|e] eqn:E2; cbn [bind]; [|discriminate].
  assert (S2 : br_src r2 = br_src r).
  { destruct is_slice; [apply br_get_src in E2; congruence | injection E2 as _ <-; exact S1]. }
  pose proof (br_rest_length r2) as HR. rewrite S2 in HR.
  destruct (br_rest r2) as [|x rest] eqn:ER.
  - destruct is_slice.
    + intros H. injection H as <- _ _. eexists. split; [reflexivity|]. split; [|discriminate].
      pose proof (slice_assign_length (N.to_nat i1) (N.to_nat i2) (@nil value) l). cbn [length] in *. lia.
    + destruct (Nat.ltb (N.to_nat i1) (length l)); [|discriminate].
      intros H. injection H as <- _ _. eexists. split; [reflexivity|]. rewrite replace_nth_length. split; [lia|reflexivity].
  - destruct (decode_all (S (length (x :: rest))) et (x :: rest)) as [new|e] eqn:ED; cbn [bind]; [|discriminate].
    apply decode_all_length in ED.
    destruct is_slice.
    + intros H. injection H as <- _ _. eexists. split; [reflexivity|]. split; [|discriminate].
      pose proof (slice_assign_length (N.to_nat i1) (N.to_nat i2) new l). lia.
    + destruct (Nat.ltb (N.to_nat i1) (length l)); [|discriminate].
      destruct new as [|y ys]; [discriminate|].
      intros H. injection H as <- _ _. eexists. split; [reflexivity|]. rewrite replace_nth_length. split; [lia|reflexivity].
Qed.
Print Assumptions leaf_op_list_growth.

(* inhabited: a slice packet whose two bounds have all bits set (3:3 in two bits) appends to a three-element list *)
Example growth_example :
  exists v nm b, leaf_op true (VList (TUInt 1) [VInt 1; VInt 2; VInt 3]) (br_init [xfc; x07]) = Ok (v, nm, b).
Proof. vm_compute. eauto. Qed.

(* ... and a dict-field change never adds more than the one member it names *)
Lemma assoc_set_length {A} k (v : A) : forall l, length (assoc_set k v l) <= S (length l).
Proof.
  induction l as [|[k' v'] l IH]; cbn [assoc_set length]; [lia|].
  destruct (String.eqb k k'); cbn [length]; lia.
Qed.
Theorem leaf_op_dict_growth is_slice fs kvs r v nm b :
  leaf_op is_slice (VDict fs kvs) r = Ok (v, nm, b) ->
  exists kvs', v = VDict fs kvs' /\ length kvs' <= S (length kvs).
Proof.
  unfold leaf_op. destruct is_slice; [discriminate|].
  destruct (br_get (bits_required (length kvs)) r) as [[i r1]|e]; cbn [bind]; [|discriminate].
  destruct (nth_error fs (N.to_nat i)) as [[fname ftype]|]; [|discriminate].
  destruct (decode 1 ftype (br_rest r1)) as [[x rest]|e]; cbn [bind]; [|discriminate].
  intros H. injection H as <- _ _. eexists. split; [reflexivity|apply assoc_set_length].
Qed.
Print Assumptions leaf_op_dict_growth.
