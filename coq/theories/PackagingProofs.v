From RU Require Import Base Packaging.
From Coq Require Import Lia.
Open Scope string_scope.

(* a directory that find_packages reports contains __init__.py and has no '.' in its name *)
Theorem package_has_init fuel keep : forall here t p k, In (p, k) (packages_fuel fuel keep here t) -> has_file "__init__.py" k = true.
Proof.
  induction fuel as [|f IH]; intros here t p k H; [contradiction|]. cbn [packages_fuel] in H.
  destruct t as [|kids]; [contradiction|]. apply in_flat_map in H as ([n c] & Hin & H).
  destruct c as [|ck]; [contradiction|].
  destruct (negb (has_dot n) && has_file "__init__.py" (Dir ck)) eqn:E; [|contradiction].
  apply andb_true_iff in E as [_ Ei]. apply in_app_or in H as [H|H].
  - destruct (keep (here ++ [n])%list); [|contradiction]. destruct H as [H|[]]. inversion H; subst. exact Ei.
  - eapply IH; eauto.
Qed.
(* nothing below a directory that is not a package is ever reported: without an __init__.py chain no module is shipped *)
Theorem not_package_no_descent fuel keep here n kids_here k :
  has_file "__init__.py" k = false -> In (n, k) kids_here ->
  forall p t, In (p, t) (packages_fuel (S fuel) keep here (Dir [(n, k)])) -> False.
Proof.
  intros Hi _ p t H. cbn [packages_fuel flat_map] in H. destruct k as [|ck]; [contradiction|].
  rewrite Hi in H. rewrite andb_false_r in H. cbn in H. contradiction.
Qed.

(* fnmatch: '*' alone matches every component; a literal pattern matches exactly itself *)
Lemma glob_star_fuel : forall s n, (String.length s + 1 < n)%nat -> glob_comp_fuel n "*" s = true.
Proof.
  induction s as [|c s IH]; intros n Hn; (destruct n as [|n]; [cbn in Hn; lia|]); cbn [glob_comp_fuel].
  - destruct n; [cbn in Hn; lia|]. reflexivity.
  - rewrite (IH n) by (cbn in Hn; lia). now rewrite orb_true_r.
Qed.
Lemma glob_star_all s : glob_comp "*" s = true.
Proof. unfold glob_comp. apply glob_star_fuel. cbn. lia. Qed.
(* '**' matches zero components *)
Lemma starstar_zero ps p : match_path ps p = true -> match_path (PStarStar :: ps) p = true.
Proof. intros H. cbn [match_path]. destruct p; now rewrite H. Qed.
Example glob_examples :
  match_path [PStarStar; PGlob "scripts"; PStarStar; PGlob "*.def"] ["versions"; "0_8_0"; "scripts"; "entity_defs"; "Avatar.def"] = true /\
  match_path [PStarStar; PGlob "scripts"; PStarStar; PGlob "*.def"] ["scripts"; "Avatar.def"] = true /\
  match_path [PStarStar; PGlob "scripts"; PGlob "*.xml"] ["versions"; "0_8_0"; "scripts"; "entities.xml"] = true /\
  match_path [PGlob "*.py"] ["fixtures"; "CamouflageInfo.py"] = false /\
  match_path [PGlob "*.py"] ["helper.py"] = true.
Proof. repeat split; reflexivity. Qed.
Print Assumptions package_has_init.
