(* C12 from the BYTES of the stream: lenient play of a byte stream equals strict play of the byte stream of the survivors *)
From RU Require Import Base Types Defs BitReader World Run FrameProofs RunProofs WorldProofs.
Open Scope N_scope.

Section B.
Variable St : setup.

Lemma survivors_wf ps : forall w, Forall wf_packet ps -> Forall wf_packet (survivors St w ps).
Proof.
  induction ps as [|p r IH]; intros w H; cbn [survivors]; [constructor|].
  inversion H as [|? ? Hp Hr]; subst. destruct (step St w p) as [w' [e|]]; [apply IH; exact Hr|constructor; [exact Hp|apply IH; exact Hr]].
Qed.

(* the stream of the survivors, framed again, played STRICTLY, gives what the lenient play of the original stream gives - and does not fail *)
Theorem lenient_bytes_is_strict_on_survivor_bytes ps :
  Forall wf_packet ps ->
  (forall w0 p w1 e, In p ps -> step St w0 p = (w1, Some e) -> w1 = w0) ->
  Run.run_strict St (enc_all (survivors St empty_world ps)) = (fst (Run.run_lenient St (enc_all ps)), None) /\
  snd (Run.run_lenient St (enc_all ps)) = None.
Proof.
  intros Hwf Hat. rewrite (run_lenient_enc St ps Hwf). cbn [fst snd]. split; [|reflexivity].
  rewrite (run_strict_enc St _ (survivors_wf ps empty_world Hwf)).
  apply lenient_is_strict_on_survivors. exact Hat.
Qed.
End B.
Print Assumptions lenient_bytes_is_strict_on_survivor_bytes.
