(* Lemmas used by the GENERATED instance theorems: agreement of two finite tables on all their keys
   is agreement on every key. *)
From RU Require Import Base Types Defs World.
From Coq Require Import Lia.

Lemma assoc_get_none {A} k (l : list (string * A)) : ~ In k (map fst l) -> assoc_get k l = None.
Proof.
  induction l as [|[k' v] l IH]; intros H; [reflexivity|]. cbn [assoc_get].
  destruct (String.eqb_spec k k') as [->|Hne].
  - exfalso. apply H. now left.
  - apply IH. intros Hin. apply H. now right.
Qed.

Lemma tables_agree {A} (a b : list (string * A)) :
  Forall (fun k => assoc_get k a = assoc_get k b) (map fst a ++ map fst b) ->
  forall k, assoc_get k a = assoc_get k b.
Proof.
  intros H k. rewrite Forall_forall in H.
  destruct (in_dec string_dec k (map fst a ++ map fst b)) as [Hin|Hnin].
  - now apply H.
  - rewrite !assoc_get_none; [reflexivity| |]; intros Hin; apply Hnin, in_or_app; auto.
Qed.

Lemma table_get_none k (l : list (N * pclass)) : ~ In k (map fst l) -> table_get k l = None.
Proof.
  induction l as [|[k' v] l IH]; intros H; [reflexivity|]. cbn [table_get].
  destruct (N.eqb_spec k k') as [->|Hne].
  - exfalso. apply H. now left.
  - apply IH. intros Hin. apply H. now right.
Qed.

Lemma ptables_agree (a b : list (N * pclass)) :
  Forall (fun k => table_get k a = table_get k b) (map fst a ++ map fst b) ->
  forall k, table_get k a = table_get k b.
Proof.
  intros H k. rewrite Forall_forall in H.
  destruct (in_dec N.eq_dec k (map fst a ++ map fst b)) as [Hin|Hnin].
  - now apply H.
  - rewrite !table_get_none; [reflexivity| |]; intros Hin; apply Hnin, in_or_app; auto.
Qed.
