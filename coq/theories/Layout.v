(* Packet layouts: the byte layout of every packet class as a table, a generic table-driven header parser, and the step function
   written over it.  The table is what tools/gen_packets.py TRANSLATES from the __init__ of the packet classes of the working tree on
   every run (generated instance theorems: the translated layout of every (dialect, class) is class_layout's); LayoutProofs.v proves
   that the model's step function IS the table-driven one, so the layouts are part of the verified model and not only of the
   differential runs. *)
From RU Require Import Base Types Defs BitReader World.
Open Scope N_scope.

(* one read of __init__:
   KS w / KU w   struct.unpack of a signed / unsigned little-endian integer of w bytes (struct.error if fewer bytes are left)
   KRaw n        n bytes that must be there and are kept as raw bits ('f' floats, Vector3 = 12)
   KSkip n       stream.read(n) without unpack: tolerant of a short stream
   KLenS w       a signed w-byte length followed by stream.read(length) (tolerant; a negative length reads everything)
   KBin          BinaryStream: unsigned 32-bit length, then stream.read(length) (tolerant)
   KRest         stream.read(): everything that is left *)
Inductive fkind := KS (w : nat) | KU (w : nat) | KRaw (n : nat) | KSkip (n : nat) | KLenS (w : nat) | KBin | KRest.
Inductive lval := LZ (z : Z) | LN (n : N) | LB (b : bytes).

Fixpoint parse_layout (l : list fkind) (bs : bytes) : result (list lval) :=
  match l with
  | [] => Ok []
  | KS w :: r => '(z, b) <- get_s w bs ;; vs <- parse_layout r b ;; Ok (LZ z :: vs)
  | KU w :: r => '(n, b) <- get_u w bs ;; vs <- parse_layout r b ;; Ok (LN n :: vs)
  | KRaw n :: r => '(x, b) <- need n bs ;; vs <- parse_layout r b ;; Ok (LB x :: vs)
  | KSkip n :: r => vs <- parse_layout r (snd (read_upto n bs)) ;; Ok (LB (fst (read_upto n bs)) :: vs)
  | KLenS w :: r => '(n, b) <- get_s w bs ;; vs <- parse_layout r (snd (read_z n b)) ;; Ok (LZ n :: LB (fst (read_z n b)) :: vs)
  | KBin :: r => '(x, b) <- binstream bs ;; vs <- parse_layout r b ;; Ok (LB x :: vs)
  | KRest :: r => vs <- parse_layout r [] ;; Ok (LB bs :: vs)
  end.

(* the layout of every packet class the step function decodes by table, per dialect.  None: the class has control flow in its
   reader (wows Map: the seek/size heuristic, modelled by decode_map) or is not mapped in that dialect. *)
Definition class_layout (g : game) (c : pclass) : option (list fkind) :=
  match c with
  | BasePlayerCreate => Some [KS 4; KS 2; KBin]
  | CellPlayerCreate => match g with
                        | Wows => Some [KS 4; KS 4; KS 4; KRaw 12; KRaw 12; KBin]
                        | Wot => Some [KS 4; KS 4; KS 2; KS 4; KRaw 12; KRaw 12; KBin]
                        | Wowp => None
                        end
  | EntityControl => Some [KS 4; KS 1]
  | EntityEnter => Some [KS 4; KS 4; KS 4]
  | EntityLeave => Some [KS 4]
  | EntityCreate => match g with
                    | Wows => Some [KS 4; KS 2; KS 4; KS 4; KRaw 12; KRaw 12; KBin]
                    | Wot => Some [KS 4; KS 2; KS 4; KS 4; KRaw 12; KRaw 12; KS 4; KBin]
                    | Wowp => None
                    end
  | EntityProperty => Some [KU 4; KU 4; KBin]
  | EntityMethod => Some [KU 4; KU 4; KBin]
  | Position => Some [KS 4; KS 4; KRaw 12; KRaw 12; KRaw 4; KRaw 4; KRaw 4; KS 1]
  | Version => Some [KLenS 4]
  | PlayerPosition => match g with Wows => Some [KS 4; KS 4; KRaw 12; KRaw 4; KRaw 4; KRaw 4] | _ => None end
  | Map => match g with Wot => Some [KS 4; KS 4; KLenS 1] | _ => None end
  | NestedProperty => Some [KU 4; KS 1; KU 1; KSkip 3; KRest]
  | BattleStats => match g with Wows => Some [KLenS 4] | _ => None end
  end.

Section StepLayout.
Variable St : setup.
Local Open Scope string_scope.

(* what each packet class does with the values its layout delivers (the bodies are those of World.step_class) *)
Definition handle (w : world) (c : pclass) (vs : list lval) : world * option error :=
  let g := s_game St in
  match c, vs with
  | BasePlayerCreate, [LZ id; LZ _; LB val] =>
      match (match zassoc_get id (w_entities w) with Some e => Ok (e, true) | None => e <- new_entity St id "Avatar" ;; Ok (e, false) end) with
      | Err e => (w, Some e)
      | Ok (e, existed) =>
        match g with
        | Wot => (set_player (put w e) id, None)
        | _ =>
          match model_of St (en_type e) with
          | Err er => (w, Some er)
          | Ok m =>
            match fill set_base (e_base m) e val with
            | (e', None) => (set_player (put w e') id, None)
            | (e', Some er) => ((if existed then put w e' else w), Some er)
            end
          end
        end
      end
  | CellPlayerCreate, LZ id :: rest =>
      match (match g, rest with
             | Wows, [LZ _; LZ _; LB _; LB _; LB val] => Some val
             | Wot, [LZ _; LZ _; LZ _; LB _; LB _; LB val] => Some val
             | _, _ => None
             end) with
      | None => (w, Some EOther)
      | Some val =>
          match (match zassoc_get id (w_entities w) with Some e => Ok (e, true) | None => e <- new_entity St id "Avatar" ;; Ok (e, false) end) with
          | Err e => (w, Some e)
          | Ok (e, existed) =>
            match model_of St (en_type e) with
            | Err er => (w, Some er)
            | Ok m =>
              match fill set_client (e_internal m) e val with
              | (e', None) => (put w e', None)
              | (e', Some er) => ((if existed then put w e' else w), Some er)
              end
            end
          end
      end
  | EntityControl, [LZ _; LZ _] => (w, None)
  | EntityEnter, [LZ id; LZ _; LZ _] => atomic w (_ <- lookup_entity w id ;; Ok w)
  | EntityLeave, [LZ id] => atomic w (_ <- lookup_entity w id ;; Ok w)
  | EntityCreate, LZ id :: LZ et :: rest =>
      match (match g, rest with
             | Wows, [LZ _; LZ _; LB _; LB _; LB val] => Some val
             | Wot, [LZ _; LZ _; LB _; LB _; LZ _; LB val] => Some val
             | _, _ => None
             end) with
      | None => (w, Some EOther)
      | Some val =>
        match (
          name <- (match entity_by_index (s_names St) et with Some n => Ok n | None => Err EKey end) ;;
          e <- new_entity St id name ;;
          m <- model_of St name ;;
          '(cnt, v1) <- get_u 1 val ;;
          Ok (e, m, cnt, v1)) with
        | Err er => (w, Some er)
        | Ok (e, m, cnt, v1) =>
          let fix go (n : nat) (e : entity) (bs : bytes) (cs : list call) : list call * result (entity * bytes) :=
            match n with
            | O => (cs, Ok (e, bs))
            | S n' =>
              match get_u 1 bs with
              | Err er => (cs, Err er)
              | Ok (idx, b1) =>
                match nth_error (e_client m) (N.to_nat idx) with
                | None => (cs, Err EIndex)
                | Some p => match decode 1 (p_type p) b1 with
                            | Err er => (cs, Err er)
                            | Ok (v, b2) => go n' (set_client e (p_name p) v) b2 (cs ++ prop_calls St e (p_name p) v)%list
                            end
                end
              end
            end in
          match go (N.to_nat cnt) e v1 [] with
          | (cs, Ok (e', [])) => (log (put w e') cs, None)
          | (cs, Ok (_, _ :: _)) => (log w cs, Some EAssert)
          | (cs, Err er) => (log w cs, Some er)
          end
        end
      end
  | Position, [LZ id; LZ _; LB pos; LB _; LB yaw; LB pitch; LB roll; LZ _] =>
      atomic w (e <- lookup_entity w id ;;
                Ok (put w (set_vol (set_vol (set_vol (set_vol e "position" (Some pos)) "yaw" (Some yaw)) "pitch" (Some pitch)) "roll" (Some roll))))
  | PlayerPosition, [LZ e1; LZ e2; LB pos; LB yaw; LB pitch; LB roll] =>
        if negb (Z.eqb e2 0) then
          match zassoc_get e2 (w_entities w), zassoc_get e1 (w_entities w) with
          | Some m, Some s =>
            let fix copy (ks : list string) (s : entity) : entity * option error :=
              match ks with
              | [] => (s, None)
              | k :: r => match assoc_get k (en_vol m) with
                          | Some v => copy r (set_vol s k v)
                          | None => (s, Some ERuntime)
                          end
              end in
            let '(s', er) := copy ["position"; "yaw"; "pitch"; "roll"]%string s in (put w s', er)
          | _, _ => (w, None)
          end
        else if negb (Z.eqb e1 0) then
          match zassoc_get e1 (w_entities w) with
          | Some e => (put w (set_vol (set_vol (set_vol (set_vol e "position" (Some pos)) "yaw" (Some yaw)) "pitch" (Some pitch)) "roll" (Some roll)), None)
          | None => (w, None)
          end
        else (w, None)
  | EntityMethod, [LN id; LN mid; LB data] =>
      atomic w (
        e <- lookup_entity w (Z.of_N id) ;; m <- model_of St (en_type e) ;;
        match nthN (e_methods m) mid with
        | None => Err EIndex
        | Some mt =>
          let key := key_of (en_type e) (m_name mt) in
          match (match assoc_get (en_type e) (s_mcounts St) with Some l => match nthN l mid with Some c => c | None => O end | None => O end) with
          | O => Ok w
          | n =>
            '(vs, _) <- decode_seq (Z.to_nat (m_hdr mt)) (map snd (m_args mt)) data ;;
            let '(ps, ks) := split_args (map fst (m_args mt)) vs in
            Ok (log w (repeat_call n (CMethod key (en_id e) ps ks)))
          end
        end)
  | EntityProperty, [LN id; LN pid; LB val] =>
      atomic w (
        e <- lookup_entity w (Z.of_N id) ;; m <- model_of St (en_type e) ;;
        match nthN (e_client m) pid with
        | None => Err EIndex
        | Some p => '(v, _) <- decode 1 (p_type p) val ;; Ok (log (put w (set_client e (p_name p) v)) (prop_calls St e (p_name p) v))
        end)
  | NestedProperty, [LN id; LZ sl; LN sz; LB _; LB payload] =>
      atomic w (
        if negb (N.eqb (N.of_nat (length payload)) sz) then Err EAssert else
        e <- lookup_entity w (Z.of_N id) ;; m <- model_of St (en_type e) ;;
        '(e', cs) <- nested_apply St e m (Z.eqb sl 1) payload ;;
        Ok (log (put w e') cs))
  | Map, [LZ _; LZ _; LZ _; LB name] =>
      atomic w (if utf8_valid name then Ok {| w_entities := w_entities w; w_player := w_player w; w_map := Some name; w_trace := w_trace w |}
                else Err EUnicode)
  | Version, [LZ _; LB v] => atomic w (if utf8_valid v then Ok w else Err EUnicode)
  | BattleStats, [LZ _; LB _] => (w, None)
  | _, _ => (w, Some EOther)
  end.

(* the step function over the layout table; classes without a table entry keep their hand-written reader *)
Definition step_layout (w : world) (c : pclass) (pl : bytes) : world * option error :=
  match class_layout (s_game St) c with
  | Some L => match parse_layout L pl with Err e => (w, Some e) | Ok vs => handle w c vs end
  | None => step_class St w c pl
  end.
End StepLayout.
