(* Model.BitReader : mirrors core/entity_def/bit_reader.py.  Definitions only.
   Two readers are kept:
   - [reader]  : what the code does - a byte stream plus a per-byte cache of bits popped from the front;
   - [breader] : the abstraction used by the nested-property model - the whole bit expansion, a counter,
                 and the source bytes (rest = skipn ceil(read/8)).
   BitReaderProofs.v proves that the first refines the second. *)
From RU Require Import Base.
Open Scope N_scope.

Definition bits_of_byte (b : byte) : list bool :=
  let '(b0,(b1,(b2,(b3,(b4,(b5,(b6,b7))))))) := Byte.to_bits b in [b7;b6;b5;b4;b3;b2;b1;b0].
Fixpoint bits_of_bytes (bs : bytes) : list bool :=
  match bs with [] => [] | b :: r => bits_of_byte b ++ bits_of_bytes r end.

(* ---- the code's reader: BytesIO + _bits_cache + _read_bits ---- *)
Record reader := { rd_stream : bytes; rd_cache : list bool; rd_nread : nat }.
Definition rd_init (bs : bytes) := {| rd_stream := bs; rd_cache := []; rd_nread := 0 |}.
(* _get_next_bit: refill the cache from one byte when it is empty, count the bit, pop(0);
   an exhausted stream gives an empty cache and pop raises (Exception 'I am empty') *)
Definition next_bit (r : reader) : result (bool * reader) :=
  match rd_cache r with
  | b :: c => Ok (b, {| rd_stream := rd_stream r; rd_cache := c; rd_nread := S (rd_nread r) |})
  | [] => match rd_stream r with
          | [] => Err EEmpty
          | x :: s => match bits_of_byte x with
                      | b :: c => Ok (b, {| rd_stream := s; rd_cache := c; rd_nread := S (rd_nread r) |})
                      | [] => Err EEmpty
                      end
          end
  end.
Fixpoint rd_get_loop (n : nat) (acc : N) (r : reader) : result (N * reader) :=
  match n with
  | O => Ok (acc, r)
  | S n' => match next_bit r with
            | Ok (b, r') => rd_get_loop n' (2 * acc + (if b then 1 else 0)) r'
            | Err e => Err e
            end
  end.
Definition rd_get (n : nat) (r : reader) : result (N * reader) := rd_get_loop n 0 r.
Definition rd_rest (r : reader) : bytes := rd_stream r.
(* bytes_read = int(ceil(read_bits / 8.0)) *)
Definition rd_bytes_read (r : reader) : nat := (rd_nread r + 7) / 8.

(* a whole sequence of get() calls followed by get_rest() *)
Fixpoint rd_gets (ws : list nat) (r : reader) : result (list N * reader) :=
  match ws with
  | [] => Ok ([], r)
  | w :: ws' => '(v, r1) <- rd_get w r ;; '(vs, r2) <- rd_gets ws' r1 ;; Ok (v :: vs, r2)
  end.

(* ---- the abstraction used by World.v ---- *)
Record breader := { br_bits : list bool; br_read : nat; br_src : bytes }.
Definition br_init (bs : bytes) := {| br_bits := bits_of_bytes bs; br_read := 0; br_src := bs |}.
Fixpoint br_get_loop (n : nat) (acc : N) (bits : list bool) : result (N * list bool) :=
  match n with
  | O => Ok (acc, bits)
  | S n' => match bits with
            | [] => Err EEmpty
            | b :: r => br_get_loop n' (2 * acc + (if b then 1 else 0)) r
            end
  end.
Definition br_get (n : nat) (r : breader) : result (N * breader) :=
  '(v, bits) <- br_get_loop n 0 (br_bits r) ;;
  Ok (v, {| br_bits := bits; br_read := br_read r + n; br_src := br_src r |}).
Definition br_rest (r : breader) : bytes := skipn ((br_read r + 7) / 8) (br_src r).

(* ---- bits_required: the exact integer function the float formula int(ceil(log(n, 2))) is meant to be ---- *)
Definition bits_requiredN (n : N) : N := if n <=? 1 then 0 else N.log2 (n - 1) + 1.
Definition bits_required (n : nat) : nat := N.to_nat (bits_requiredN (N.of_nat n)).
