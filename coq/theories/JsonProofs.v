From RU Require Import Base Json.

(* the only way a finite result tree can be refused: some dict key (at any depth) is a tuple, bytes or another object *)
Inductive bad_key_in : pyval -> Prop :=
| BK_here kvs k x : In (k, x) kvs -> key_ok k = false -> bad_key_in (PDict kvs)
| BK_dict kvs k x : In (k, x) kvs -> bad_key_in x -> bad_key_in (PDict kvs)
| BK_list l x : In x l -> bad_key_in x -> bad_key_in (PList l)
| BK_obj fs n x : In (n, x) fs -> bad_key_in x -> bad_key_in (PObject fs).

Theorem json_refused_iff_bad_key : forall v, json_ok v = false -> bad_key_in v.
Proof.
  fix IH 1. intros v. destruct v as [| | | | | |l|kvs|fs]; cbn [json_ok]; try discriminate.
  - induction l as [|x r IHr]; [discriminate|]. intros H. apply andb_false_iff in H as [H|H].
    + eapply BK_list; [now left|now apply IH].
    + specialize (IHr H). inversion IHr; subst. eapply BK_list; [right; eassumption|assumption].
  - induction kvs as [|[k x] r IHr]; [discriminate|]. intros H. apply andb_false_iff in H as [H|H].
    + apply andb_false_iff in H as [H|H].
      * eapply BK_here; [now left|exact H].
      * eapply BK_dict; [now left|now apply IH].
    + specialize (IHr H). inversion IHr; subst.
      * eapply BK_here; [right; eassumption|assumption].
      * eapply BK_dict; [right; eassumption|assumption].
  - induction fs as [|[n x] r IHr]; [discriminate|]. intros H. apply andb_false_iff in H as [H|H].
    + eapply BK_obj; [now left|now apply IH].
    + specialize (IHr H). inversion IHr; subst. eapply BK_obj; [right; eassumption|assumption].
Qed.
(* values never make the encoder fail: a tree without dicts is always accepted *)
Fixpoint no_dict (v : pyval) : bool :=
  match v with
  | PDict _ => false
  | PList l => (fix all (l : list pyval) : bool := match l with [] => true | x :: r => no_dict x && all r end) l
  | PObject fs => (fix all (l : list (string * pyval)) : bool := match l with [] => true | (_, x) :: r => no_dict x && all r end) fs
  | _ => true end.
Theorem values_never_fail : forall v, no_dict v = true -> json_ok v = true.
Proof.
  fix IH 1. intros v. destruct v as [| | | | | |l|kvs|fs]; cbn [json_ok no_dict]; try reflexivity; try discriminate.
  - induction l as [|x r IHr]; [reflexivity|]. intros H. apply andb_true_iff in H as [H1 H2]. rewrite (IH x H1). cbn [andb]. now apply IHr.
  - induction fs as [|[n x] r IHr]; [reflexivity|]. intros H. apply andb_true_iff in H as [H1 H2]. rewrite (IH x H1). cbn [andb]. now apply IHr.
Qed.
(* bytes keys are repaired by unicodize (the roster normalisation); tuple keys are not *)
Example bytes_key_repaired : json_ok (PDict [(KBytes [x61], PInt 1)]) = false /\ json_ok (unicodize (PDict [(KBytes [x61], PInt 1)])) = true.
Proof. split; reflexivity. Qed.
Example tuple_key_refused : json_ok (unicodize (PDict [(KTuple 2, PInt 1)])) = false.
Proof. reflexivity. Qed.
Print Assumptions json_refused_iff_bad_key.
