(* Model.Container: mirrors replay_reader.py (ReplayReader.__init__, get_replay_data, __decrypt_data).
   JSON parsing of the blocks and zlib inflation stay outside: the blocks are returned raw, the payload decrypted but
   still compressed.  Definitions only. *)
From RU Require Import Base WireSpec Feistel Blowfish PiTable.
Open Scope N_scope.

(* ---- Blowfish on 8-byte blocks; S-boxes as 4 x 16 x 16 lists for cheap lookup ---- *)
Fixpoint chunk {A} (fuel k : nat) (l : list A) : list (list A) :=
  match fuel with
  | O => []
  | S f => match l with [] => [] | _ => firstn k l :: chunk f k (skipn k l) end
  end.
Definition fastS := list (list (list N)).
Definition fast_of (Sb : list N) : fastS := map (chunk 16 16) (chunk 4 256 Sb).
Definition sbox (S : fastS) (box : nat) (x : N) : N :=
  nth (N.to_nat (N.land x 15)) (nth (N.to_nat (N.shiftr x 4)) (nth box S []) []) 0.
Definition bfF_fast (S : fastS) (x : N) : N :=
  let a := N.shiftr x 24 in let b := N.land (N.shiftr x 16) 255 in
  let c := N.land (N.shiftr x 8) 255 in let d := N.land x 255 in
  (N.lxor ((sbox S 0 a + sbox S 1 b) mod M32) (sbox S 2 c) + sbox S 3 d) mod M32.
Definition bf_enc_f (F : N -> N) (P : list N) (b : blk) : blk := let '(p0, ks, pl) := split_P P in enc F p0 ks pl b.
Definition bf_dec_f (F : N -> N) (P : list N) (b : blk) : blk := let '(p0, ks, pl) := split_P P in dec F p0 ks pl b.

Definition be32_enc (n : N) : bytes := rev (le_encode 4 n).
Definition blk_of_bytes (b : bytes) : blk := (be_decode (firstn 4 b), be_decode (skipn 4 b)).
Definition bytes_of_blk (p : blk) : bytes := be32_enc (fst p) ++ be32_enc (snd p).

Record cipher := { c_P : list N; c_S : fastS }.
Definition cipher_of_key (key : list N) : cipher := let '(P, Sb) := key_schedule key in {| c_P := P; c_S := fast_of Sb |}.
Definition dec_block (c : cipher) (b : bytes) : bytes := bytes_of_blk (bf_dec_f (bfF_fast (c_S c)) (c_P c) (blk_of_bytes b)).
Definition enc_block (c : cipher) (b : bytes) : bytes := bytes_of_blk (bf_enc_f (bfF_fast (c_S c)) (c_P c) (blk_of_bytes b)).

(* ---- the format's constants (tied to the working tree by generated instance theorems) ---- *)
Definition magic : bytes := [x12; x32; x34; x11].
Definition wows_key : list N := [41;183;201;9;56;63;132;136;250;152;236;78;19;25;121;251].
Definition wowp_key : list N := [222;114;190;239;222;173;190;239;222;173;190;239;222;173;190;239].
Definition wot_key : list N := [222;114;190;160;222;4;190;177;222;254;190;239;222;173;190;239].
Definition key_table : list (string * (string * list N)) :=
  [("wowsreplay", ("wows", wows_key)); ("wotreplay", ("wot", wot_key)); ("wowpreplay", ("wowp", wowp_key))]%string.

(* rsplit('.', 1)[-1]: what follows the last dot (the whole path if there is none) *)
Fixpoint ext_acc (s : string) (cur : string) : string :=
  match s with
  | EmptyString => cur
  | String c r => if Ascii.eqb c "."%char then ext_acc r EmptyString else ext_acc r (cur ++ String c EmptyString)
  end.
Definition ext_of (path : string) : string := ext_acc path EmptyString.

(* ---- __decrypt_data ---- *)
Fixpoint chunks8 (fuel : nat) (bs : bytes) : list bytes :=
  match fuel with
  | O => []
  | S f => match bs with [] => [] | _ => firstn 8 bs :: chunks8 f (skipn 8 bs) end
  end.
(* struct.unpack('q') -> signed; `if previous_block:` skips the XOR for None and for 0; struct.pack('q') *)
Fixpoint chain_dec (D : bytes -> bytes) (prev : option Z) (cs : list bytes) : result bytes :=
  match cs with
  | [] => Ok []
  | c :: r =>
    if Nat.eqb (length c) 8 then
      let s := to_signed 8 (le_decode (D c)) in
      let p := match prev with Some q => if Z.eqb q 0 then s else Z.lxor s q | None => s end in
      rest <- chain_dec D (Some p) r ;; Ok (le_encode 8 (of_signed 8 p) ++ rest)
    else Err EValue             (* Cryptodome: data must be aligned to the block boundary *)
  end.
Definition decrypt_data (D : bytes -> bytes) (data : bytes) : result bytes :=
  match chunks8 (S (length data)) data with
  | [] => Ok []
  | _ :: rest => chain_dec D None rest      (* chunk 0 (the 8-byte prefix) is skipped, whatever its length *)
  end.

(* ---- get_replay_data ---- *)
Definition bytes_eqb (a b : bytes) : bool := (Nat.eqb (length a) (length b)) && forallb (fun '(x, y) => b2n x =? b2n y) (combine a b).
Definition opt_block (b : bytes) : option bytes := match b with [] => None | _ => Some b end.
(* for i in range(blocks_count - 1): the count comes from the file (signed 32 bit); every iteration needs 4 more bytes *)
Fixpoint read_blocks (fuel : nat) (cnt : Z) (bs : bytes) : result (list (option bytes) * bytes) :=
  if (cnt <=? 0)%Z then Ok ([], bs) else
  match fuel with
  | O => Err EFuel
  | S f =>
    '(sz, r) <- get_s 4 bs ;;
    let '(b, r') := read_z sz r in
    '(rest, r'') <- read_blocks f (cnt - 1) r' ;;
    Ok (opt_block b :: rest, r'')
  end.

Record container := { ct_game : string; ct_engine : bytes; ct_extra : list (option bytes); ct_payload : bytes }.

Definition read_container (ciph : list N -> bytes -> bytes) (ext : string) (file : bytes) : result container :=
  match assoc_get ext key_table with
  | None => Err EValue                                   (* __init__: extension not in ALLOWED_TYPES *)
  | Some (game, key) =>
    match split_exact 4 file with
    | None => Err EValue                                 (* f.read(4) != REPLAY_SIGNATURE *)
    | Some (m, r0) =>
      if negb (bytes_eqb m magic) then Err EValue else
      '(bc, r1) <- get_s 4 r0 ;;
      '(sz, r2) <- get_s 4 r1 ;;
      let '(b0, r3) := read_z sz r2 in
      '(extra, r4) <- read_blocks (S (length r3)) (bc - 1) r3 ;;
      payload <- decrypt_data (ciph key) r4 ;;
      Ok {| ct_game := game; ct_engine := b0; ct_extra := extra; ct_payload := payload |}
    end
  end.
(* the instance with the real cipher *)
Definition real_cipher (key : list N) : bytes -> bytes := let c := cipher_of_key key in dec_block c.
Definition real_cipher_enc (key : list N) : bytes -> bytes := let c := cipher_of_key key in enc_block c.
Definition read_container_real := read_container real_cipher.

(* ---- the independent WRITER (Spec.ContainerSpec): what the property calls "the replay file format" ---- *)
Fixpoint chain_enc (E : bytes -> bytes) (prev : N) (ps : list bytes) : bytes :=
  match ps with
  | [] => []
  | p :: r => let v := le_decode p in E (le_encode 8 (N.lxor v prev)) ++ chain_enc E v r
  end.
Definition enc_i32 (n : N) : bytes := le_encode 4 n.
Definition write_block (b : bytes) : bytes := enc_i32 (N.of_nat (length b)) ++ b.
(* [zpad]: the deflated stream already padded to a multiple of 8; [prefix]: the 8 bytes before the ciphertext *)
Definition write_container (E : bytes -> bytes) (b0 : bytes) (extra : list bytes) (prefix zpad : bytes) : bytes :=
  (magic ++ enc_i32 (N.of_nat (S (length extra))) ++ write_block b0 ++ List.concat (map write_block extra)
        ++ prefix ++ chain_enc E 0 (chunks8 (S (length zpad)) zpad))%list.

(* ---- the same reader, reporting how far it got when it fails (which blocks had already been read): the library parses
   each JSON block right after reading it, so the ORDER of failures matters when the model is compared with it ---- *)
Record progress := { pg_game : option string; pg_engine : option bytes; pg_extra : list (option bytes); pg_payload : option bytes }.
Fixpoint read_blocks_pg (fuel : nat) (cnt : Z) (bs : bytes) : list (option bytes) * bytes * option error :=
  if (cnt <=? 0)%Z then ([], bs, None) else
  match fuel with
  | O => ([], bs, Some EFuel)
  | S f =>
    match get_s 4 bs with
    | Err e => ([], bs, Some e)
    | Ok (sz, r) =>
      let '(b, r') := read_z sz r in
      let '(rest, r'', er) := read_blocks_pg f (cnt - 1) r' in
      (opt_block b :: rest, r'', er)
    end
  end.
Definition no_progress := {| pg_game := None; pg_engine := None; pg_extra := []; pg_payload := None |}.
Definition read_container_pg (ciph : list N -> bytes -> bytes) (ext : string) (file : bytes) : progress * option error :=
  match assoc_get ext key_table with
  | None => (no_progress, Some EValue)
  | Some (game, key) =>
    match split_exact 4 file with
    | None => (no_progress, Some EValue)
    | Some (m, r0) =>
      if negb (bytes_eqb m magic) then (no_progress, Some EValue) else
      match get_s 4 r0 with
      | Err e => (no_progress, Some e)
      | Ok (bc, r1) =>
        match get_s 4 r1 with
        | Err e => (no_progress, Some e)
        | Ok (sz, r2) =>
          let '(b0, r3) := read_z sz r2 in
          let '(extra, r4, er) := read_blocks_pg (S (length r3)) (bc - 1) r3 in
          let pg := {| pg_game := Some game; pg_engine := Some b0; pg_extra := extra; pg_payload := None |} in
          match er with
          | Some e => (pg, Some e)
          | None =>
            match decrypt_data (ciph key) r4 with
            | Err e => (pg, Some e)
            | Ok payload => ({| pg_game := Some game; pg_engine := Some b0; pg_extra := extra; pg_payload := Some payload |}, None)
            end
          end
        end
      end
    end
  end.
Definition read_container_pg_real := read_container_pg real_cipher.
