From RU Require Import Base Types Defs BitReader World Run TypesProofs FrameProofs.
From Coq Require Import Lia.

(* C02: playing the byte stream of well-formed packets IS playing the packet list (each exactly once, in order) *)
Theorem run_strict_enc St ps : Forall wf_packet ps ->
  Run.run_strict St (enc_all ps) = play_strict St empty_world ps.
Proof.
  intros H. unfold Run.run_strict. rewrite (frames_enc ps H).
  destruct (play_strict St empty_world ps) as [w [e|]]; reflexivity.
Qed.
Theorem run_lenient_enc St ps : Forall wf_packet ps ->
  Run.run_lenient St (enc_all ps) = (play_lenient St empty_world ps, None).
Proof. intros H. unfold Run.run_lenient. now rewrite (frames_enc ps H). Qed.
(* a header cut short ends the run with struct.error in BOTH modes, after every earlier packet was applied *)
Theorem run_lenient_cut_header St ps junk : Forall wf_packet ps -> (0 < length junk < 12)%nat ->
  Run.run_lenient St (enc_all ps ++ junk)%list = (play_lenient St empty_world ps, Some EStruct).
Proof. intros H Hj. unfold Run.run_lenient. now rewrite (frames_cut_header ps junk H Hj). Qed.
Print Assumptions run_strict_enc.
