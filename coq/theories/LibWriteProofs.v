(* C16: the library's writers produce the statement's wire encoding on everything they can carry, so its readers invert them *)
From RU Require Import Base Types WireSpec TypesProofs LibWrite.
From Coq Require Import Lia.
Open Scope N_scope.

Definition write_limits := {| lim_blob := 65536; lim_string := 65536; lim_python := 255; lim_count := 255 |}.

Lemma write_len_packed n : n < 65536 -> write_len n = Ok (enc_packed n).
Proof.
  intros H. unfold write_len, enc_packed. destruct (n <? 255); [reflexivity|].
  replace (n <? 65536) with true by (symmetry; apply N.ltb_lt; exact H). now rewrite le_encode_3_small.
Qed.

(* distinct keys in declaration order: payload[key] finds the value at the same position *)
Fixpoint keys_distinct (fl : list (string * dtype)) : Prop :=
  match fl with [] => True | (k, _) :: r => ~ In k (map fst r) /\ keys_distinct r end.

Fixpoint wf_keys (t : dtype) : Prop :=
  match t with
  | TArray e _ => wf_keys e
  | TDict fs _ => keys_distinct fs /\
                  (fix go (fl : list (string * dtype)) : Prop := match fl with [] => True | (_, t') :: r => wf_keys t' /\ go r end) fs
  | TUser i => wf_keys i
  | _ => True
  end.

Lemma assoc_get_app_skip {A} k (pre post : list (string * A)) : ~ In k (map fst pre) -> assoc_get k (pre ++ post) = assoc_get k post.
Proof.
  induction pre as [|[k0 v0] pre IH]; intros H; [reflexivity|]. cbn [app assoc_get].
  destruct (String.eqb_spec k k0) as [->|Hne]; [exfalso; apply H; now left|]. apply IH. intros Hin. apply H. now right.
Qed.

Theorem lib_write_is_wire_encode : forall t hdr v,
  writable t = true -> wf_keys t -> has_type write_limits t v ->
  lib_write hdr t v = Ok (wire_encode hdr t v).
Proof.
  induction t as [w|w| | |n| | | | |e sz IH|fs an IH|t IH] using dtype_ind'; intros hdr v Hw Hk Ht; cbn [writable] in Hw; try discriminate Hw.
  - (* UInt *) destruct v; try contradiction. cbn [has_type] in Ht. cbn [lib_write wire_encode].
    destruct Ht as [H0 H1]. replace (0 <=? z)%Z with true by (symmetry; apply Z.leb_le; exact H0).
    replace (z <? 256 ^ Z.of_nat w)%Z with true by (symmetry; apply Z.ltb_lt; exact H1). reflexivity.
  - (* Int *) destruct v; try contradiction. cbn [has_type] in Ht. destruct Ht as [_ [H0 H1]]. cbn [lib_write wire_encode].
    replace (- 2 ^ (8 * Z.of_nat w - 1) <=? z)%Z with true by (symmetry; apply Z.leb_le; exact H0).
    replace (z <? 2 ^ (8 * Z.of_nat w - 1))%Z with true by (symmetry; apply Z.ltb_lt; exact H1). reflexivity.
  - destruct v; try contradiction. cbn [has_type] in Ht. cbn [lib_write wire_encode]. now rewrite Ht.
  - destruct v; try contradiction. cbn [has_type] in Ht. cbn [lib_write wire_encode]. now rewrite Ht.
  - destruct v; try contradiction. cbn [has_type] in Ht. cbn [lib_write wire_encode]. now rewrite Ht, Nat.eqb_refl.
  - (* String *) destruct v; try contradiction; cbn [has_type] in Ht; destruct Ht as [Hl Hu]; cbn [lib_write wire_encode].
    + rewrite write_len_packed by exact Hl. reflexivity.
    + rewrite write_len_packed by exact Hl. reflexivity.
  - (* Blob *) destruct v; try contradiction. cbn [has_type] in Ht. cbn [lib_write wire_encode]. rewrite write_len_packed by exact Ht. reflexivity.
  - (* Mailbox *) destruct v; try contradiction. cbn [has_type] in Ht. destruct Ht as [Hip Hport]. cbn [lib_write wire_encode].
    rewrite Hip. cbn [Nat.eqb]. replace (port <? 65536) with true by (symmetry; apply N.ltb_lt; exact Hport). reflexivity.
  - (* Array *) destruct v as [| | | | | | |e' l| |]; try contradiction. cbn [has_type] in Ht. destruct Ht as (-> & Hsz & Hall).
    cbn [wf_keys] in Hk. cbn [lib_write wire_encode].
    set (go := fix go (l : list value) : result bytes :=
        match l with [] => Ok [] | x :: r => a <- lib_write hdr e x ;; b <- go r ;; Ok (a ++ b) end).
    set (body := (fix go (l : list value) : bytes := match l with [] => [] | x :: r => wire_encode hdr e x ++ go r end) l).
    assert (Hgo : go l = Ok body).
    { subst body. clear Hsz. induction l as [|x l IHl]; [reflexivity|]. destruct Hall as [Hx Hl].
      cbn [go]. fold go. rewrite (IH hdr x Hw Hk Hx). cbn [bind]. rewrite (IHl Hl). reflexivity. }
    destruct sz as [n|]; [rewrite Hsz, Nat.eqb_refl; exact Hgo|].
    cbn [lim_count write_limits] in Hsz.
    replace (len_list l <? 256) with true by (symmetry; apply N.ltb_lt; lia). rewrite Hgo. cbn [bind].
    unfold enc_packed. replace (len_list l <? 255) with true by (symmetry; apply N.ltb_lt; exact Hsz). reflexivity.
  - (* Dict *) destruct v as [| | | | | | | |fs' kvs|]; cbn [has_type] in Ht; try contradiction;
      [|subst an; reflexivity].
    destruct Ht as [-> Hty]. cbn [wf_keys] in Hk. destruct Hk as [Hd Hkk]. cbn [lib_write wire_encode].
    set (go := fix go (fl : list (string * dtype)) : result bytes :=
        match fl with
        | [] => Ok []
        | (k, t') :: fl' => match assoc_get k kvs with
                            | Some x => a <- lib_write hdr t' x ;; b <- go fl' ;; Ok (a ++ b)
                            | None => Err EKey end
        end).
    set (enc := fix go (fl : list (string * dtype)) (kvs : list (string * value)) {struct fl} : bytes :=
        match fl, kvs with
        | (_, t') :: fl', (_, v') :: kvs' => wire_encode hdr t' v' ++ go fl' kvs'
        | _, _ => []
        end).
    assert (G : forall fl kvs' pre, kvs = pre ++ kvs' -> (forall k, In k (map fst fl) -> ~ In k (map fst pre)) ->
                keys_distinct fl -> Forall (fun kt => forall hdr v, writable (snd kt) = true -> wf_keys (snd kt) -> has_type write_limits (snd kt) v ->
                                               lib_write hdr (snd kt) v = Ok (wire_encode hdr (snd kt) v)) fl ->
                (fix go (fl : list (string * dtype)) : bool := match fl with [] => true | (_, t') :: r => writable t' && go r end) fl = true ->
                (fix go (fl : list (string * dtype)) : Prop := match fl with [] => True | (_, t') :: r => wf_keys t' /\ go r end) fl ->
                (fix go (fl : list (string * dtype)) (kvs : list (string * value)) : Prop :=
                   match fl, kvs with
                   | [], [] => True
                   | (k, t') :: fl', (k', v') :: kvs' => k = k' /\ has_type write_limits t' v' /\ go fl' kvs'
                   | _, _ => False end) fl kvs' ->
                go fl = Ok (enc fl kvs')).
    { clear Hd Hkk Hty Hw IH. induction fl as [|[k t'] fl IHfl]; intros kvs' pre Epre Hdis Hdist HIH Hwr Hwk Hty.
      - destruct kvs'; [reflexivity|contradiction].
      - destruct kvs' as [|[k' v'] kvs'']; [contradiction|]. destruct Hty as (<- & Hv & Hrest).
        cbn [go enc]. fold go. fold enc. rewrite Epre.
        rewrite assoc_get_app_skip by (apply Hdis; now left). cbn [assoc_get]. rewrite String.eqb_refl.
        inversion HIH as [|? ? Hk1 HIH']; subst. cbn [snd] in Hk1. apply andb_true_iff in Hwr as [Hw1 Hw2]. destruct Hwk as [Wk1 Wk2].
        destruct Hdist as [Hnot Hdist'].
        rewrite (Hk1 hdr v' Hw1 Wk1 Hv). cbn [bind].
        assert (E2 : pre ++ (k, v') :: kvs'' = (pre ++ [(k, v')]) ++ kvs'') by (rewrite <- app_assoc; reflexivity).
        assert (D2 : forall k0, In k0 (map fst fl) -> ~ In k0 (map fst (pre ++ [(k, v')]))).
        { intros k0 Hin Hin2. rewrite map_app in Hin2. apply in_app_or in Hin2 as [Hin2|[<-|[]]].
          - apply (Hdis k0); [now right|exact Hin2].
          - apply Hnot. exact Hin. }
        rewrite (IHfl kvs'' (pre ++ [(k, v')]) E2 D2 Hdist' HIH' Hw2 Wk2 Hrest). reflexivity. }
    assert (IH' : Forall (fun kt => forall hdr v, writable (snd kt) = true -> wf_keys (snd kt) -> has_type write_limits (snd kt) v ->
                                    lib_write hdr (snd kt) v = Ok (wire_encode hdr (snd kt) v)) fs).
    { eapply Forall_impl; [|exact IH]. cbn. intros kt Hkt hdr0 v0 H1 H2 H3. now apply Hkt. }
    rewrite (G fs kvs [] eq_refl (fun _ _ H => H) Hd IH' Hw Hkk Hty). reflexivity.
Qed.

(* hence: what the library writes, its own reader reads back exactly, consuming exactly what was written *)
Lemma has_type_mono : forall t v, has_type write_limits t v -> has_type code_limits t v.
Proof.
  induction t as [w|w| | |n| | | | |e sz IH|fs an IH|t IH] using dtype_ind'; intros v H.
  - exact H.
  - exact H.
  - exact H.
  - exact H.
  - exact H.
  - destruct v; cbn [has_type] in *; try contradiction; cbn [lim_string write_limits code_limits] in *; change (2 ^ 24) with 16777216; (split; [lia | apply H]).
  - destruct v; cbn [has_type] in *; try contradiction. cbn [lim_blob write_limits code_limits] in *. change (2 ^ 24) with 16777216. lia.
  - destruct v; cbn [has_type] in *; try contradiction. cbn [lim_python write_limits code_limits] in *. change (2 ^ 24) with 16777216. lia.
  - exact H.
  - destruct v as [| | | | | | |e' l| |]; cbn [has_type] in *; try contradiction.
    destruct H as (-> & Hsz & Hall). split; [reflexivity|]. split; [exact Hsz|].
    clear Hsz. induction l as [|x l IHl]; [exact I|]. destruct Hall as [Hx Hl]. split; [now apply IH|now apply IHl].
  - destruct v as [| | | | | | | |fs' kvs|]; cbn [has_type] in *; try contradiction; [|exact H].
    destruct H as [-> Hty]. split; [reflexivity|]. revert kvs Hty. induction IH as [|[k t'] fs' Hk _ IHfs]; intros kvs Hty.
    + exact Hty.
    + destruct kvs as [|[k' v'] kvs']; [contradiction|]. destruct Hty as (-> & Hv & Hrest).
      split; [reflexivity|]. split; [now apply Hk|now apply IHfs].
  - cbn [has_type] in *. now apply IH.
Qed.
Theorem lib_write_read t hdr v bs rest :
  writable t = true -> wf_keys t -> has_type write_limits t v ->
  lib_write hdr t v = Ok bs -> decode hdr t (bs ++ rest) = Ok (v, rest).
Proof.
  intros Hw Hk Ht H. rewrite (lib_write_is_wire_encode t hdr v Hw Hk Ht) in H. inversion H; subst.
  apply decode_wire_encode_partial. now apply has_type_mono.
Qed.

(* unrepresentable values are refused, never written as something else *)
Theorem refused_out_of_range_uint w z hdr : (z < 0 \/ 256 ^ Z.of_nat w <= z)%Z -> lib_write hdr (TUInt w) (VInt z) = Err EStruct.
Proof.
  intros H. cbn [lib_write]. destruct (Z.leb_spec 0 z), (Z.ltb_spec z (256 ^ Z.of_nat w)); cbn [andb]; try reflexivity. lia.
Qed.
Theorem refused_out_of_range_int w z hdr : (z < - 2 ^ (8 * Z.of_nat w - 1) \/ 2 ^ (8 * Z.of_nat w - 1) <= z)%Z -> lib_write hdr (TInt w) (VInt z) = Err EStruct.
Proof.
  intros H. cbn [lib_write]. destruct (Z.leb_spec (- 2 ^ (8 * Z.of_nat w - 1)) z), (Z.ltb_spec z (2 ^ (8 * Z.of_nat w - 1))); cbn [andb]; try reflexivity. lia.
Qed.
Theorem refused_long_blob b hdr : 65536 <= len b -> lib_write hdr TBlob (VBytes b) = Err EStruct.
Proof.
  intros H. cbn [lib_write]. unfold write_len. replace (len b <? 255) with false by (symmetry; apply N.ltb_ge; lia).
  replace (len b <? 65536) with false by (symmetry; apply N.ltb_ge; lia). reflexivity.
Qed.
Theorem refused_arg_count hdr ts vs : length ts <> length vs -> write_args hdr ts vs = Err ERuntime.
Proof. intros H. unfold write_args. destruct (Nat.eqb_spec (length ts) (length vs)); [contradiction|reflexivity]. Qed.

(* the three former holes (repaired in /repo, recorded as fixed: C16-a/b/c), now as theorems *)
Theorem none_for_allownone fs hdr : lib_write hdr (TDict fs true) VNone = Ok [x00] /\ decode hdr (TDict fs true) [x00] = Ok (VNone, []).
Proof. split; reflexivity. Qed.
Theorem none_refused_without_allownone fs hdr : lib_write hdr (TDict fs false) VNone = Err EType.
Proof. reflexivity. Qed.
Example non_ascii_text_roundtrip :   (* "é" = c3 a9: length 2 is written, two bytes follow *)
  lib_write 1 TString (VStr [xc3; xa9]) = Ok [x02; xc3; xa9] /\ decode 1 TString [x02; xc3; xa9] = Ok (VStr [xc3; xa9], []).
Proof. split; vm_compute; reflexivity. Qed.
Theorem refused_fixed_array_length e n et l hdr : length l <> n -> lib_write hdr (TArray e (Some n)) (VList et l) = Err EValue.
Proof. intros H. cbn [lib_write]. destruct (Nat.eqb_spec (length l) n); [contradiction | reflexivity]. Qed.
Print Assumptions lib_write_is_wire_encode.
Print Assumptions lib_write_read.
