(* Hand-written driver around the extracted model: reads a case (raw definition trees + stream), prints a canonical world dump *)
open Model

let byte_tab : byte array = Array.of_list all_bytes
let int_of_n (x : n) : int =
  let rec pos = function XH -> 1 | XO p -> 2 * pos p | XI p -> 2 * pos p + 1 in
  match x with N0 -> 0 | Npos p -> pos p
let rec pos_of_int i = if i = 1 then XH else if i land 1 = 0 then XO (pos_of_int (i lsr 1)) else XI (pos_of_int (i lsr 1))
let n_of_int i = if i = 0 then N0 else Npos (pos_of_int i)
let int_of_byte (b : byte) : int = int_of_n (b2n b)
let string_of_z (z : z) : Stdlib.String.t =
  (* values fit in 64 bits + sign; use Int64-safe path via strings for u64 *)
  let rec pos_to_digits p = (* returns decimal string *)
    let rec to_bits = function XH -> [1] | XO p -> 0 :: to_bits p | XI p -> 1 :: to_bits p in
    let bits = List.rev (to_bits p) in
    (* big decimal accumulate *)
    let digits = ref [0] in
    List.iter (fun b ->
      let carry = ref b in
      digits := List.map (fun d -> let v = d * 2 + !carry in carry := v / 10; v mod 10) !digits;
      if !carry > 0 then digits := !digits @ [!carry]) bits;
    String.concat "" (List.rev_map string_of_int !digits) in
  match z with Z0 -> "0" | Zpos p -> pos_to_digits p | Zneg p -> "-" ^ pos_to_digits p

let coq_string_of (s : Stdlib.String.t) : Model.string =
  let n = String.length s in
  let rec go i = if i >= n then EmptyString else
    let c = Char.code s.[i] in
    let b k = (c lsr k) land 1 = 1 in
    String (Ascii (b 0, b 1, b 2, b 3, b 4, b 5, b 6, b 7), go (i + 1)) in
  go 0
let ocaml_string_of (s : Model.string) : Stdlib.String.t =
  let buf = Buffer.create 16 in
  let rec go = function
    | EmptyString -> ()
    | String (Ascii (b0, b1, b2, b3, b4, b5, b6, b7), r) ->
        let v x k = if x then 1 lsl k else 0 in
        Buffer.add_char buf (Char.chr (v b0 0 + v b1 1 + v b2 2 + v b3 3 + v b4 4 + v b5 5 + v b6 6 + v b7 7)); go r in
  go s; Buffer.contents buf

let unhex (s : Stdlib.String.t) : Stdlib.String.t =
  let n = String.length s / 2 in String.init n (fun i -> Char.chr (int_of_string ("0x" ^ String.sub s (2 * i) 2)))
let hex_of_bytes (l : byte list) : Stdlib.String.t =
  let buf = Buffer.create 16 in List.iter (fun b -> Buffer.add_string buf (Printf.sprintf "%02x" (int_of_byte b))) l; Buffer.contents buf
let bytes_of_string (s : Stdlib.String.t) : byte list =
  let rec go i acc = if i < 0 then acc else go (i - 1) (byte_tab.(Char.code s.[i]) :: acc) in go (String.length s - 1) []

(* case file: tokens separated by newlines.
   NODE <taghex> <texthex|-> <nkids>   (preorder) *)
let ic = ref stdin
let next_line () = input_line !ic
let rec read_node () : node =
  let l = next_line () in
  match String.split_on_char ' ' l with
  | ["N"; tag; text; nk] ->
      let nk = int_of_string nk in
      let kids = List.init nk (fun _ -> ()) |> List.map (fun () -> read_node ()) in
      Node (coq_string_of (if tag = "-" then "" else unhex tag),
            (if text = "-" then None else if text = "=" then Some EmptyString else Some (coq_string_of (unhex text))), kids)
  | _ -> failwith ("bad node line: " ^ l)
let read_nodes () : node list =
  let n = int_of_string (next_line ()) in
  let rec go k acc = if k = 0 then List.rev acc else go (k - 1) (read_node () :: acc) in go n []
let read_named () : (Model.string * node) list =
  let n = int_of_string (next_line ()) in
  let rec go k acc = if k = 0 then List.rev acc else
    let name = coq_string_of (unhex (next_line ())) in
    let nd = read_node () in go (k - 1) ((name, nd) :: acc) in
  go n []

let f32_canon (l : byte list) =
  match List.map int_of_byte l with
  | [a; b; c; d] ->
      let exp = ((d land 0x7f) lsl 1) lor (c lsr 7) and man = ((c land 0x7f) lsl 16) lor (b lsl 8) lor a in
      if exp = 255 && man <> 0 then "nan" else hex_of_bytes l
  | _ -> hex_of_bytes l
let rec canon (v : value) : Stdlib.String.t =
  match v with
  | VInt z -> "i" ^ string_of_z z
  | VF32 b -> "f" ^ f32_canon b
  | VF64 b ->
      (match List.map int_of_byte b with
       | [a0; a1; a2; a3; a4; a5; a6; a7] ->
           let exp = ((a7 land 0x7f) lsl 4) lor (a6 lsr 4) in
           let man_nz = (a6 land 0x0f) <> 0 || a5 <> 0 || a4 <> 0 || a3 <> 0 || a2 <> 0 || a1 <> 0 || a0 <> 0 in
           if exp = 0x7ff && man_nz then "dnan" else "d" ^ hex_of_bytes b
       | _ -> "d" ^ hex_of_bytes b)
  | VVec b ->
      let rec chunks l = match l with a :: b :: c :: d :: r -> f32_canon [a; b; c; d] :: chunks r | _ -> [] in
      "v(" ^ String.concat "," (chunks b) ^ ")"
  | VStr b -> "s" ^ hex_of_bytes b
  | VBytes b -> "b" ^ hex_of_bytes b
  | VMail (ip, port) -> "m" ^ hex_of_bytes ip ^ ":" ^ string_of_int (int_of_n port)
  | VList (_, l) -> "[" ^ String.concat "," (List.map canon l) ^ "]"
  | VDict (_, kvs) -> "{" ^ String.concat "," (List.map (fun (k, x) -> ocaml_string_of k ^ "=" ^ canon x) kvs) ^ "}"
  | VNone -> "n"

let err_name = function
  | EStruct -> "struct" | EAssert -> "assert" | EKey -> "key" | EIndex -> "index" | ENotImpl -> "notimpl"
  | EUnicode -> "unicode" | ERuntime -> "runtime" | EOS -> "os" | EEmpty -> "empty" | EFuel -> "FUEL" | EOther -> "other"
  | EValue -> "value" | EType -> "type"

let dump_trace (w : world) =
  List.iter (function
    | CMethod (k, id, args, kw) ->
        Printf.printf "C %s %s (%s) {%s}\n" (ocaml_string_of k) (string_of_z id)
          (String.concat "," (List.map canon args))
          (String.concat "," (List.sort compare (List.map (fun (n, v) -> ocaml_string_of n ^ "=" ^ canon v) kw)))
    | CProp (k, id, v) -> Printf.printf "CP %s %s %s\n" (ocaml_string_of k) (string_of_z id) (canon v)
    | CNested (k, id, path, v) -> Printf.printf "CN %s %s %s %s\n" (ocaml_string_of k) (string_of_z id) (ocaml_string_of path) (canon v)) (trace_of w)

let dump_world (w : world) =
  dump_trace w;
  (match w.w_player with Some z -> Printf.printf "PLAYER %s\n" (string_of_z z) | None -> print_string "PLAYER none\n");
  (match w.w_map with Some b -> Printf.printf "MAP %s\n" (hex_of_bytes b) | None -> print_string "MAP none\n");
  List.iter (fun (id, e) ->
    Printf.printf "E %s %s\n" (string_of_z id) (ocaml_string_of e.en_type);
    List.iter (fun (bucket, l) -> List.iter (fun (k, v) -> Printf.printf "P %s %s %s\n" bucket (ocaml_string_of k) (canon v)) l)
      [("client", e.en_client); ("base", e.en_base); ("cell", e.en_cell)];
    List.iter (fun (k, v) -> Printf.printf "V %s %s\n" (ocaml_string_of k)
                 (match v with None -> "D" | Some b -> if List.length b = 12 then canon (VVec b) else "f" ^ f32_canon b))
      (List.sort compare e.en_vol)) w.w_entities


let rec nat_of_int i = if i = 0 then O else S (nat_of_int (i - 1))
let rec int_of_nat = function O -> 0 | S n -> 1 + int_of_nat n
let string_of_n (x : n) = match x with N0 -> "0" | Npos p -> string_of_z (Zpos p)

(* ---------- type syntax:  u4 i2 f32 f64 vec12 str blob py mbox arr(T) arr3(T) dict0{6e616d65:T;...} user(T) ---------- *)
let parse_type (s : Stdlib.String.t) : dtype =
  let pos = ref 0 in
  let n = String.length s in
  let peek () = if !pos < n then s.[!pos] else '\000' in
  let eat c = if peek () = c then incr pos else failwith (Printf.sprintf "type syntax: expected %c at %d in %s" c !pos s) in
  let ident () = let st = !pos in
    while !pos < n && (match s.[!pos] with 'a'..'z' | 'A'..'Z' -> true | _ -> false) do incr pos done; String.sub s st (!pos - st) in
  let number () = let st = !pos in
    while !pos < n && (match s.[!pos] with '0'..'9' -> true | _ -> false) do incr pos done;
    if !pos = st then None else Some (int_of_string (String.sub s st (!pos - st))) in
  let hexname () = let st = !pos in
    while !pos < n && (match s.[!pos] with '0'..'9' | 'a'..'f' -> true | _ -> false) do incr pos done; unhex (String.sub s st (!pos - st)) in
  let rec ty () =
    let id = ident () in
    match id with
    | "u" -> (match number () with Some w -> TUInt (nat_of_int w) | None -> failwith "u?")
    | "i" -> (match number () with Some w -> TInt (nat_of_int w) | None -> failwith "i?")
    | "f" -> (match number () with Some 32 -> TF32 | Some 64 -> TF64 | _ -> failwith "f?")
    | "vec" -> (match number () with Some w -> TVec (nat_of_int w) | None -> failwith "vec?")
    | "str" -> TString | "blob" -> TBlob | "py" -> TPython | "mbox" -> TMailbox
    | "arr" -> let sz = number () in eat '('; let e = ty () in eat ')';
        TArray (e, (match sz with Some k -> Some (nat_of_int k) | None -> None))
    | "user" -> eat '('; let e = ty () in eat ')'; TUser e
    | "dict" -> let an = (match number () with Some 1 -> true | _ -> false) in eat '{';
        let fields = ref [] in
        while peek () <> '}' do
          let name = hexname () in eat ':'; let t = ty () in
          fields := (coq_string_of name, t) :: !fields;
          if peek () = ';' then incr pos
        done; eat '}'; TDict (List.rev !fields, an)
    | _ -> failwith ("type syntax: " ^ id ^ " in " ^ s) in
  let t = ty () in if !pos <> n then failwith ("type syntax: trailing input in " ^ s); t


(* ---------- value syntax = the canonical output form, parsed under the guidance of the type ---------- *)
let z_of_string (s : Stdlib.String.t) : z =
  (* decimal, optional '-' ; values may exceed 63 bits *)
  let neg = String.length s > 0 && s.[0] = '-' in
  let digits = if neg then String.sub s 1 (String.length s - 1) else s in
  let acc = ref Z0 in
  let ten = Zpos (XO (XI (XO XH))) in
  String.iter (fun c -> acc := Z.add (Z.mul !acc ten) (match Char.code c - 48 with 0 -> Z0 | d -> Zpos (pos_of_int d))) digits;
  if neg then Z.opp !acc else !acc

let parse_value (t : dtype) (s : Stdlib.String.t) : value =
  let pos = ref 0 in
  let n = String.length s in
  let peek () = if !pos < n then s.[!pos] else '\000' in
  let eat c = if peek () = c then incr pos else failwith (Printf.sprintf "value syntax: expected %c at %d in %s" c !pos s) in
  let take p = let st = !pos in while !pos < n && p s.[!pos] do incr pos done; String.sub s st (!pos - st) in
  let hexs () = take (function '0'..'9' | 'a'..'f' -> true | _ -> false) in
  let bytes_hex () = bytes_of_string (unhex (hexs ())) in
  let rec strip = function TUser t -> strip t | t -> t in
  let rec v (t : dtype) : value =
    let t = strip t in
    if peek () = 'n' && (match t with TDict _ -> true | _ -> false) then (incr pos; VNone) else
    match t with
    | TUInt _ | TInt _ -> eat 'i'; VInt (z_of_string (take (function '0'..'9' | '-' -> true | _ -> false)))
    | TF32 -> eat 'f'; VF32 (bytes_hex ())
    | TF64 -> eat 'd'; VF64 (bytes_hex ())
    | TVec _ -> eat 'v'; eat '('; let acc = ref [] in
        while peek () <> ')' do acc := !acc @ bytes_hex (); if peek () = ',' then incr pos done; eat ')'; VVec !acc
    | TString -> if peek () = 's' then (incr pos; VStr (bytes_hex ())) else (eat 'b'; VBytes (bytes_hex ()))
    | TBlob | TPython -> eat 'b'; VBytes (bytes_hex ())
    | TMailbox -> eat 'm'; let ip = bytes_hex () in eat ':'; let p = take (function '0'..'9' -> true | _ -> false) in
        VMail (ip, n_of_int (int_of_string p))
    | TArray (e, _) -> eat '['; let acc = ref [] in
        while peek () <> ']' do acc := v e :: !acc; if peek () = ',' then incr pos done; eat ']'; VList (e, List.rev !acc)
    | TDict (fs, _) -> eat '{'; let acc = ref [] in
        List.iter (fun (k, ft) ->
          let name = take (fun c -> c <> '=') in eat '=';
          ignore name; acc := (k, v ft) :: !acc; if peek () = ',' then incr pos) fs;
        eat '}'; VDict (fs, List.rev !acc)
    | TUser _ -> failwith "unreachable" in
  let r = v t in if !pos <> n then failwith ("value syntax: trailing input in " ^ s); r

let split_ws l = List.filter (fun x -> x <> "") (String.split_on_char ' ' l)
let iter_lines f = try while true do f (input_line stdin) done with End_of_file -> ()

(* bits LO HI : change points of bits_requiredN on [LO, HI] *)
let cmd_bits () =
  let lo = int_of_string Sys.argv.(2) and hi = int_of_string Sys.argv.(3) in
  let prev = ref (-1) in
  for i = lo to hi do
    let b = int_of_n (bits_requiredN (n_of_int i)) in
    if b <> !prev then (Printf.printf "%d %d\n" i b; prev := b)
  done

(* bitread : lines "<hex bytes|-> w1,w2,..." -> "OK v1,v2,.. <resthex|-> <bytes_read>" | "ERR <e>" *)
let cmd_bitread () =
  iter_lines (fun l ->
    match split_ws l with
    | [hx; ws] ->
        let bs = bytes_of_string (unhex (if hx = "-" then "" else hx)) in
        let ws = if ws = "-" then [] else List.map (fun w -> nat_of_int (int_of_string w)) (String.split_on_char ',' ws) in
        (match rd_gets ws (rd_init bs) with
         | Ok (vs, r) -> Printf.printf "OK %s %s %d\n" (String.concat "," (List.map string_of_n vs))
                           (let h = hex_of_bytes (rd_rest r) in if h = "" then "-" else h) (int_of_nat (rd_bytes_read r))
         | Err e -> Printf.printf "ERR %s\n" (err_name e))
    | _ -> failwith ("bitread: bad line " ^ l))

(* decode : lines "<hdr> <type> <hex|->" -> "OK <canon> <resthex|->" | "ERR <e>" *)
let cmd_decode () =
  iter_lines (fun l ->
    match split_ws l with
    | [hdr; t; hx] ->
        let bs = bytes_of_string (unhex (if hx = "-" then "" else hx)) in
        (match decode (nat_of_int (int_of_string hdr)) (parse_type t) bs with
         | Ok (v, rest) -> Printf.printf "OK %s %d\n" (canon v) (List.length rest)
         | Err e -> Printf.printf "ERR %s\n" (err_name e))
    | _ -> failwith ("decode: bad line " ^ l))

let cmd_world () =
  let casefile = Sys.argv.(2) and streamfile = Sys.argv.(3) and mode = Sys.argv.(4) in
  ic := open_in casefile;
  let dialect = next_line () in
  let alias = read_nodes () in
  let ifaces = read_named () in
  let ents = read_named () in
  let rec nat_of_int i = if i = 0 then O else S (nat_of_int (i - 1)) in
  let read_subs () =
    (* registrations in order: "<entityhex> <memberhex>" per line; the table is computed by the model's [subscribe] *)
    let n = (try int_of_string (next_line ()) with End_of_file -> 0) in
    let regs = List.init n (fun _ -> ()) |> List.map (fun () ->
      match String.split_on_char ' ' (next_line ()) with
      | [e; k] -> (coq_string_of (unhex e), coq_string_of (unhex k)) | _ -> failwith "sub") in
    match subscribe_all [] regs with Ok t -> t | Err _ -> failwith "subscribe: KeyError" in
  let msubs = read_subs () in let psubs = read_subs () in let nsubs = read_subs () in
  let g, table = match dialect with
    | "wows" -> Wows, table_wows | "wows126" -> Wows, table_wows126
    | "wot" -> Wot, table_wot | "wowp" -> Wowp, table_wowp | _ -> failwith "dialect" in
  match build_setup g table alias ifaces ents msubs psubs nsubs with
  | Err e -> Printf.printf "SETUP-ERROR %s\n" (err_name e)
  | Ok st ->
      let sic = open_in_bin streamfile in
      let s = really_input_string sic (in_channel_length sic) in
      let bs = bytes_of_string s in
      let (w, er) =
        if mode = "strict" then run_strict st bs
        else if mode = "lenient" then run_lenient st bs
        else begin (* "stream": same as lenient, trace printed incrementally; L lines report payload consumption *)
          let (ps, t) = frames bs in
          let w = List.fold_left (fun w p ->
              let (w', _) = step st w p in
              dump_trace w';
              (match (if st.s_game = Wowp then None else class_of st p) with
               | Some EntityMethod ->
                   (match method_payload_rest st w p.pk_payload with
                    | Ok (k, Some n) -> Printf.printf "L %s %d\n" (ocaml_string_of k) (int_of_nat n)
                    | Ok (k, None) -> Printf.printf "L %s ERR\n" (ocaml_string_of k)
                    | Err _ -> ())
               | Some EntityProperty ->
                   (match prop_payload_rest st w p.pk_payload with
                    | Ok (k, Some n) -> Printf.printf "LP %s %d\n" (ocaml_string_of k) (int_of_nat n)
                    | Ok (k, None) -> Printf.printf "LP %s ERR\n" (ocaml_string_of k)
                    | Err _ -> ())
               | _ -> ());
              clear_trace w') empty_world ps in
          (w, (match t with Clean -> None | HeaderCut -> Some EStruct | OutOfFuel -> Some EFuel))
        end in
      (match er with Some e -> Printf.printf "RAISED %s\n" (err_name e) | None -> print_string "DONE\n");
      dump_world w


(* encode : lines "<hdr> <type> <value>" -> "<hex|->"  (the SPEC encoder wire_encode) *)
let cmd_encode () =
  iter_lines (fun l ->
    match split_ws l with
    | [hdr; t; vs] ->
        let t = parse_type t in
        let h = hex_of_bytes (wire_encode (nat_of_int (int_of_string hdr)) t (parse_value t vs)) in
        print_endline (if h = "" then "-" else h)
    | _ -> failwith ("encode: bad line " ^ l))

(* ---------- defs : index maps of a definition set ---------- *)
let hex_of_string (s : Stdlib.String.t) = let b = Buffer.create 16 in String.iter (fun c -> Buffer.add_string b (Printf.sprintf "%02x" (Char.code c))) s; Buffer.contents b
let rec type_syntax (t : dtype) : Stdlib.String.t =
  match t with
  | TUInt w -> Printf.sprintf "u%d" (int_of_nat w) | TInt w -> Printf.sprintf "i%d" (int_of_nat w)
  | TF32 -> "f32" | TF64 -> "f64" | TVec n -> Printf.sprintf "vec%d" (int_of_nat n)
  | TString -> "str" | TBlob -> "blob" | TPython -> "py" | TMailbox -> "mbox"
  | TArray (e, None) -> "arr(" ^ type_syntax e ^ ")"
  | TArray (e, Some n) -> Printf.sprintf "arr%d(%s)" (int_of_nat n) (type_syntax e)
  | TDict (fs, an) -> Printf.sprintf "dict%d{%s}" (if an then 1 else 0)
      (String.concat ";" (List.map (fun (k, ft) -> hex_of_string (ocaml_string_of k) ^ ":" ^ type_syntax ft) fs))
  | TUser e -> "user(" ^ type_syntax e ^ ")"

let read_case () =
  let dialect = next_line () in
  let alias = read_nodes () in
  let ifaces = read_named () in
  let ents = read_named () in
  (dialect, alias, ifaces, ents)

let cmd_defs () =
  ic := open_in Sys.argv.(2);
  let (dialect, alias, ifaces, ents) = read_case () in
  let g, table = match dialect with
    | "wows" -> Wows, table_wows | "wows126" -> Wows, table_wows126
    | "wot" -> Wot, table_wot | "wowp" -> Wowp, table_wowp | _ -> failwith "dialect" in
  match build_setup g table alias ifaces ents [] [] [] with
  | Err e -> Printf.printf "SETUP-ERROR %s\n" (err_name e)
  | Ok st ->
      List.iteri (fun i name -> Printf.printf "ENT %d %s\n" (i + 1) (ocaml_string_of name)) st.s_names;
      List.iter (fun (name, m) ->
        Printf.printf "MODEL %s\n" (ocaml_string_of name);
        List.iter (fun mt ->
          Printf.printf "M %s %s %s %s\n" (ocaml_string_of mt.m_name) (string_of_z (method_key mt)) (string_of_z mt.m_hdr)
            (String.concat " " (List.map (fun (a, t) -> (match a with Some n -> ocaml_string_of n | None -> "-") ^ ":" ^ type_syntax t) mt.m_args))) m.e_methods;
        let pl tag l = List.iter (fun p -> Printf.printf "%s %s %s %s\n" tag (ocaml_string_of p.p_name) (type_syntax p.p_type) (string_of_n p.p_flags)) l in
        pl "PC" m.e_client; pl "PI" m.e_internal; pl "PL" m.e_cell; pl "PB" m.e_base;
        Printf.printf "VOL %s\n" (String.concat "," (List.sort compare (List.map ocaml_string_of m.e_vol)))) st.s_models

(* ---------- container ---------- *)
let read_file path = let ic = open_in_bin path in let s = really_input_string ic (in_channel_length ic) in close_in ic; s
let hexo l = let h = hex_of_bytes l in if h = "" then "-" else h
(* container <path> : the extension is taken from the path by the model's ext_of *)
let dec_cache : (Model.n list, (byte list -> byte list)) Hashtbl.t = Hashtbl.create 3
let enc_cache : (Model.n list, (byte list -> byte list)) Hashtbl.t = Hashtbl.create 3
let ciph_dec key = try Hashtbl.find dec_cache key with Not_found -> let f = real_cipher key in Hashtbl.add dec_cache key f; f
let ciph_enc key = try Hashtbl.find enc_cache key with Not_found -> let f = real_cipher_enc key in Hashtbl.add enc_cache key f; f
let container_one path =
  let ext = ext_of (coq_string_of path) in
  let (pg, er) = read_container_pg ciph_dec ext (bytes_of_string (read_file path)) in
  (match pg.pg_game with Some g -> Printf.printf "GAME %s\n" (ocaml_string_of g) | None -> ());
  (match pg.pg_engine with Some b -> Printf.printf "B0 %s\n" (hexo b) | None -> ());
  List.iter (function None -> print_endline "X none" | Some b -> Printf.printf "X %s\n" (hexo b)) pg.pg_extra;
  (match pg.pg_payload with Some b -> Printf.printf "PAYLOAD %s\n" (hexo b) | None -> ());
  (match er with Some e -> Printf.printf "ERR %s\n" (err_name e) | None -> print_endline "OK")
(* container <path> [<path> ...] | container - (paths on stdin) : one answer block per path, terminated by "END" *)
let cmd_container () =
  if Sys.argv.(2) = "-" then iter_lines (fun p -> container_one p; print_endline "END"; flush stdout)
  else for i = 2 to Array.length Sys.argv - 1 do container_one Sys.argv.(i); print_endline "END" done
(* mkcontainer : stdin records: ext, out path, b0 hex, n, n extra hex lines, prefix hex, padded compressed stream hex *)
let cmd_mkcontainer () =
  let hx () = let l = input_line stdin in bytes_of_string (unhex (if l = "-" then "" else l)) in
  (try while true do
    let ext = coq_string_of (input_line stdin) in let out = input_line stdin in
    let b0 = hx () in
    let n = int_of_string (input_line stdin) in
    let extra = List.init n (fun _ -> ()) |> List.map (fun () -> hx ()) in
    let prefix = hx () in let zpad = hx () in
    let key = (match List.assoc_opt ext (List.map (fun (e, (_, k)) -> (e, k)) key_table) with Some k -> k | None -> failwith "ext") in
    let file = write_container (ciph_enc key) b0 extra prefix zpad in
    let oc = open_out_bin out in
    List.iter (fun b -> output_char oc (Char.chr (int_of_byte b))) file; close_out oc
  done with End_of_file -> ())
(* bfblock <ext> : lines of 8-byte blocks (hex) -> "<dec hex> <enc hex>" *)
let cmd_bfblock () =
  let ext = coq_string_of Sys.argv.(2) in
  let key = (match List.assoc_opt ext (List.map (fun (e, (_, k)) -> (e, k)) key_table) with Some k -> k | None -> failwith "ext") in
  let d = real_cipher key and e = real_cipher_enc key in
  iter_lines (fun l -> let b = bytes_of_string (unhex l) in Printf.printf "%s %s\n" (hex_of_bytes (d b)) (hex_of_bytes (e b)))

(* version : stdin "INV <game> <name> <ctrl 0|1> <alias 0|1>" lines, then "Q <game> <hex of the version string>" lines *)
let cmd_version () =
  let inv : (Stdlib.String.t, vdir list) Hashtbl.t = Hashtbl.create 3 in
  let get g = try Hashtbl.find inv g with Not_found -> [] in
  let verr = function VNotSupported -> "notsupported" | VImport -> "import" | VAssert -> "assert" | VBadNumber -> "badnumber" in
  iter_lines (fun l ->
    match split_ws l with
    | ["INV"; g; name; c; a] -> Hashtbl.replace inv g (get g @ [{ vd_name = coq_string_of name; vd_controller = (c = "1"); vd_alias = (a = "1") }])
    | ["Q"; g; hx] ->
        let s = coq_string_of (unhex (if hx = "-" then "" else hx)) in
        let (vg, parts) = (match g with
          | "wows" -> (VWows, norm_wows s) | "wowp" -> (VWowp, norm_wowp s) | "wot" -> (VWot, [norm_wot s]) | _ -> failwith "game") in
        let ps = String.concat "," (List.map (fun p -> hex_of_string (ocaml_string_of p)) parts) in
        (match select_version vg (get g) parts with
         | Inl sel -> Printf.printf "PARTS %s OK %s %s %s\n" ps (ocaml_string_of sel.sel_controller) (ocaml_string_of sel.sel_definitions) (if sel.sel_new_table then "new" else "old")
         | Inr e -> Printf.printf "PARTS %s ERR %s\n" ps (verr e))
    | _ -> failwith ("version: bad line " ^ l))

(* zerosize <case> : array element types of the definition set that can decode from zero bytes *)
let cmd_zerosize () =
  ic := open_in Sys.argv.(2);
  let (dialect, alias, ifaces, ents) = read_case () in
  match build_setup Wows table_wows alias ifaces ents [] [] [] with
  | Err e -> Printf.printf "SETUP-ERROR %s\n" (err_name e)
  | Ok st ->
      let n = ref 0 in
      List.iter (fun (name, m) ->
        let chk where t =
          n := !n + int_of_nat (count_arrays t);
          List.iter (fun e -> Printf.printf "ZERO %s %s %s\n" (ocaml_string_of name) where (type_syntax e)) (zero_size_elems t) in
        List.iter (fun p -> chk (ocaml_string_of p.p_name) p.p_type) (m.e_client @ m.e_internal @ m.e_base);
        List.iter (fun mt -> List.iter (fun (_, t) -> chk (ocaml_string_of mt.m_name) t) mt.m_args) m.e_methods) st.s_models;
      Printf.printf "ARRAYS %d\n" !n

(* shipped <treefile> : tree lines "D hexname" ... "E" / "F hexname"; then "INCLUDE hex..", "GLOB comp comp .." (comp = ** or hex), "SCRIPT hex/hex.." *)
let cmd_shipped () =
  let ic2 = open_in Sys.argv.(2) in
  let lines = ref [] in
  (try while true do lines := input_line ic2 :: !lines done with End_of_file -> ());
  let lines = ref (List.rev !lines) in
  let next () = match !lines with l :: r -> lines := r; Some l | [] -> None in
  let rec kids acc =
    match next () with
    | Some l when String.length l > 2 && l.[0] = 'F' -> kids ((coq_string_of (unhex (String.sub l 2 (String.length l - 2))), File) :: acc)
    | Some l when String.length l > 2 && l.[0] = 'D' ->
        let name = coq_string_of (unhex (String.sub l 2 (String.length l - 2))) in
        let sub = kids [] in kids ((name, Dir sub) :: acc)
    | Some "E" | None -> List.rev acc
    | Some l -> failwith ("tree: " ^ l) in
  let root = Dir (kids []) in
  let include_ = ref [] and globs = ref [] and scripts = ref [] in
  let path_of s = List.map (fun h -> coq_string_of (unhex h)) (String.split_on_char '/' s) in
  List.iter (fun l -> match split_ws l with
    | "INCLUDE" :: hs -> include_ := List.map (fun h -> coq_string_of (unhex h)) hs
    | "GLOB" :: cs -> globs := !globs @ [List.map (fun c -> if c = "**" then PStarStar else PGlob (coq_string_of (unhex c))) cs]
    | ["SCRIPT"; p] -> scripts := !scripts @ [path_of p]
    | _ -> ()) !lines;
  let show p = String.concat "/" (List.map ocaml_string_of p) in
  List.iter (fun p -> print_endline ("S " ^ show p)) (shipped root !include_ !globs !scripts);
  List.iter (fun p -> print_endline ("M " ^ show p)) (missing root !include_ !globs !scripts)

(* frames : one hex stream per line -> "<tail> <type>:<timehex>:<payloadhex|-> ..." *)
let cmd_frames () =
  iter_lines (fun l ->
    let bs = bytes_of_string (unhex (if l = "-" then "" else l)) in
    let (ps, t) = frames bs in
    let tl = (match t with Clean -> "clean" | HeaderCut -> "headercut" | OutOfFuel -> "FUEL") in
    print_endline (String.concat " " (tl :: List.map (fun p ->
      Printf.sprintf "%d:%s:%s" (int_of_n p.pk_type) (hex_of_bytes p.pk_time) (let h = hex_of_bytes p.pk_payload in if h = "" then "-" else h)) ps)))

(* write : lines "<hdr> <type> <value>" -> "OK <hex|->" | "ERR e"   (the MODEL of the library's writer) *)
let cmd_write () =
  iter_lines (fun l ->
    match split_ws l with
    | [hdr; t; vs] ->
        let t = parse_type t in
        (match lib_write (nat_of_int (int_of_string hdr)) t (parse_value t vs) with
         | Ok bs -> Printf.printf "OK %s\n" (hexo bs)
         | Err e -> Printf.printf "ERR %s\n" (err_name e))
    | _ -> failwith ("write: bad line " ^ l))

(* ---------------- summary: a translated controller program + a history of delivered calls -> the summary (C09) ----------------
   stdin: whitespace-separated tokens; see tools/summarycheck.py (emit_program, emit_events) for the grammar. ---------------- *)
let toks : Stdlib.String.t list ref = ref []
let tok () = match !toks with t :: r -> toks := r; t | [] -> failwith "summary: out of tokens"
let tint () = int_of_string (tok ())
let rec times n f = if n <= 0 then [] else let x = f () in x :: times (n - 1) f
let cs () = coq_string_of (tok ())
let hexbytes h = bytes_of_string (unhex h)
let rec rd_pv () : pyval =
  let t = tok () in
  match t with
  | "T" -> PBool true | "F" -> PBool false | "N" -> PNone
  | "l" -> let n = tint () in PList (times n rd_pv)
  | "t" -> let n = tint () in PTuple (times n rd_pv)
  | "d" -> let n = tint () in PDict (times n (fun () -> let k = rd_pv () in let v = rd_pv () in (k, v)))
  | _ ->
    let body = String.sub t 1 (String.length t - 1) in
    (match t.[0] with
     | 'i' -> PInt (z_of_string body)
     | 'f' -> (match String.split_on_char ':' body with [m; e] -> PFloat (z_of_string m, z_of_string e) | _ -> failwith "float")
     | 'b' -> PBytes (hexbytes body) | 's' -> PStr (hexbytes body) | 'o' -> POpaque (coq_string_of (unhex body))
     | _ -> failwith ("summary: bad value token " ^ t))
let rec rd_expr () : expr =
  match tok () with
  | "V" -> EVar (cs ()) | "ID" -> EEntId | "PROPS" -> EProps | "BL" -> EBL | "PLAYERS" -> EPlayers
  | "FIELD" -> EField (cs ()) | "S" -> EStrC (coq_string_of (unhex (tok ()))) | "I" -> EIntC (z_of_string (tok ()))
  | "IDX" -> let a = rd_expr () in let b = rd_expr () in EIdx (a, b)
  | "ADD" -> let a = rd_expr () in let b = rd_expr () in EAdd (a, b)
  | "LEN" -> ELen (rd_expr ())
  | "TUP" -> let n = tint () in ETup (times n rd_expr)
  | t -> failwith ("summary: bad expr token " ^ t)
let rd_sstmt () : sstmt =
  match tok () with
  | "APPEND" -> let f = cs () in SAppend (f, rd_expr ())
  | "SETDEF" -> let f = cs () in let n = tint () in SSetdef (f, times n rd_expr)
  | "AUGADD" -> let f = cs () in let n = tint () in let ks = times n rd_expr in SAugAdd (f, ks, rd_expr ())
  | "ASSIGN" -> let f = cs () in SAssign (f, rd_expr ())
  | "ASSIGNDICT" -> let f = cs () in let n = tint () in SAssignDict (f, times n (fun () -> let k = cs () in (k, rd_expr ())))
  | "LET" -> let x = cs () in SLet (x, rd_expr ())
  | "ROSTER" -> let e = rd_expr () in SRoster (e, n_of_int (tint ()))
  | "MAPSTRIP" -> SMapStrip (rd_expr ())
  | "MAPPREFIX" -> SMapPrefix (rd_expr ())
  | t -> failwith ("summary: bad stmt token " ^ t)
let rd_stmt () : stmt =
  match tok () with
  | "SIMPLE" -> Simple (rd_sstmt ())
  | "FOR" -> let x = cs () in let e = rd_expr () in let n = tint () in SFor (x, e, times n rd_sstmt)
  | t -> failwith ("summary: bad stmt token " ^ t)
let expect s = let t = tok () in if t <> s then failwith ("summary: expected " ^ s ^ " got " ^ t)
let rec show_pv (v : pyval) : Stdlib.String.t =
  match v with
  | PInt z -> "i" ^ string_of_z z
  | PFloat (m, e) -> "f" ^ string_of_z m ^ ":" ^ string_of_z e
  | PBool true -> "T" | PBool false -> "F" | PNone -> "N"
  | PBytes b -> "b" ^ hex_of_bytes b | PStr b -> "s" ^ hex_of_bytes b
  | PList l -> "l(" ^ String.concat "," (List.map show_pv l) ^ ")"
  | PTuple l -> "t(" ^ String.concat "," (List.map show_pv l) ^ ")"
  | PDict d -> "d(" ^ String.concat "," (List.map (fun (k, v) -> show_pv k ^ "=" ^ show_pv v) d) ^ ")"
  | POpaque s -> "o" ^ hex_of_string (ocaml_string_of s)
let cmd_summary () =
  let buf = Buffer.create 65536 in (try while true do Buffer.add_channel buf stdin 1 done with End_of_file -> ());
  let all = Buffer.contents buf in
  toks := List.filter (fun x -> x <> "") (String.split_on_char ' ' (String.map (fun c -> if c = '\n' || c = '\t' || c = '\r' then ' ' else c) all));
  expect "CTL"; expect "INIT";
  let init = times (tint ()) (fun () -> let f = cs () in (f, rd_pv ())) in
  expect "HANDLERS";
  let handlers = times (tint ()) (fun () ->
    let k = cs () in let params = times (tint ()) cs in let body = times (tint ()) rd_stmt in (k, { h_params = params; h_body = body })) in
  expect "MAPS";
  let maps = times (tint ()) (fun () -> let pt = n_of_int (tint ()) in let m = times (tint ()) (fun () -> let k = z_of_string (tok ()) in (k, cs ())) in (pt, m)) in
  expect "UNI"; let uni = tint () = 1 in
  expect "INFO"; let info = times (tint ()) (fun () -> let a = cs () in (a, cs ())) in
  let ctl = { c_init = init; c_handlers = handlers; c_maps = maps; c_unicodize = uni; c_info = info } in
  expect "MODE"; let strict = tok () = "strict" in
  expect "EVENTS";
  let evs = times (tint ()) (fun () ->
    let k = cs () in let id = z_of_string (tok ()) in
    let pos = times (tint ()) rd_pv in
    let kw = times (tint ()) (fun () -> let n = cs () in (n, rd_pv ())) in
    let props = (match rd_pv () with PDict d -> d | _ -> []) in
    let bl = (match rd_pv () with PDict d -> d | _ -> []) in
    { ev_key = k; ev_id = id; ev_pos = pos; ev_kw = kw; ev_props = props; ev_bl = bl }) in
  let (st, errs) =
    if strict then (match run_events_strict ctl (init_state ctl) evs with (st, Some e) -> (st, [e]) | (st, None) -> (st, []))
    else run_events ctl (init_state ctl) evs in
  List.iter (fun (k, v) -> Printf.printf "FIELD %s %s\n" (ocaml_string_of k) (show_pv v)) (summary ctl st);
  Printf.printf "ERRS %s\n" (String.concat " " (List.map err_name errs))

(* ---------- coqcases: the same computations as `decode` / `bitread` / `frames`, but each answer rendered as a Gallina term inside an
   `Example ... Proof. vm_compute. reflexivity. Qed.`: coqc then evaluates the SAME function inside Coq (the definitions the theorems are about)
   and must get the same answer - a per-run check of the extraction and of this driver's plumbing.
   input lines:  decode <hdr> <type> <hex|->   |   bitread <hex|-> <w1,w2,..|->   |   frames <hex|->   |   write <hdr> <type> <value> *)
let g_bytes (l : byte list) = "[" ^ String.concat "; " (List.map (fun b -> Printf.sprintf "x%02x" (int_of_byte b)) l) ^ "]"
let g_nat i = Printf.sprintf "%d%%nat" i
let g_n (x : n) = string_of_n x ^ "%N"
let g_z (x : z) = "(" ^ string_of_z x ^ ")%Z"
let g_string (s : Model.string) =
  let o = ocaml_string_of s in
  String.iter (fun c -> if Char.code c < 32 || Char.code c > 126 then failwith "coqcases: non-printable name") o;
  "\"" ^ String.concat "\"\"" (String.split_on_char '"' o) ^ "\"%string"
let rec g_type (t : dtype) = match t with
  | TUInt w -> Printf.sprintf "(TUInt %s)" (g_nat (int_of_nat w)) | TInt w -> Printf.sprintf "(TInt %s)" (g_nat (int_of_nat w))
  | TF32 -> "TF32" | TF64 -> "TF64" | TVec n -> Printf.sprintf "(TVec %s)" (g_nat (int_of_nat n))
  | TString -> "TString" | TBlob -> "TBlob" | TPython -> "TPython" | TMailbox -> "TMailbox"
  | TArray (e, sz) -> Printf.sprintf "(TArray %s %s)" (g_type e) (match sz with Some k -> "(Some " ^ g_nat (int_of_nat k) ^ ")" | None -> "None")
  | TDict (fs, an) -> Printf.sprintf "(TDict %s %s)" (g_fields fs) (if an then "true" else "false")
  | TUser e -> Printf.sprintf "(TUser %s)" (g_type e)
and g_fields fs = "[" ^ String.concat "; " (List.map (fun (k, t) -> "(" ^ g_string k ^ ", " ^ g_type t ^ ")") fs) ^ "]"
let rec g_value (v : value) = match v with
  | VInt z -> "(VInt " ^ g_z z ^ ")" | VF32 b -> "(VF32 " ^ g_bytes b ^ ")" | VF64 b -> "(VF64 " ^ g_bytes b ^ ")" | VVec b -> "(VVec " ^ g_bytes b ^ ")"
  | VStr b -> "(VStr " ^ g_bytes b ^ ")" | VBytes b -> "(VBytes " ^ g_bytes b ^ ")" | VMail (ip, port) -> "(VMail " ^ g_bytes ip ^ " " ^ g_n port ^ ")"
  | VList (t, l) -> "(VList " ^ g_type t ^ " [" ^ String.concat "; " (List.map g_value l) ^ "])"
  | VDict (fs, kvs) -> "(VDict " ^ g_fields fs ^ " [" ^ String.concat "; " (List.map (fun (k, x) -> "(" ^ g_string k ^ ", " ^ g_value x ^ ")") kvs) ^ "])"
  | VNone -> "VNone"
let g_err e = "E" ^ (match err_name e with "FUEL" -> "Fuel" | "notimpl" -> "NotImpl" | "os" -> "OS" | s -> String.capitalize_ascii s)
let cmd_coqcases () =
  let k = ref 0 in
  iter_lines (fun l ->
    incr k;
    match split_ws l with
    | ["decode"; hdr; t; hx] ->
        let bs = bytes_of_string (unhex (if hx = "-" then "" else hx)) in
        let ty = parse_type t and h = nat_of_int (int_of_string hdr) in
        let rhs = (match decode h ty bs with Ok (v, rest) -> Printf.sprintf "Ok (%s, %s)" (g_value v) (g_bytes rest) | Err e -> "Err " ^ g_err e) in
        Printf.printf "Example case_%d : decode %s %s %s = %s. Proof. vm_compute. reflexivity. Qed.\n" !k (g_nat (int_of_nat h)) (g_type ty) (g_bytes bs) rhs
    | ["bitread"; hx; ws] ->
        let bs = bytes_of_string (unhex (if hx = "-" then "" else hx)) in
        let wl = if ws = "-" then [] else List.map (fun w -> nat_of_int (int_of_string w)) (String.split_on_char ',' ws) in
        let rhs = (match rd_gets wl (rd_init bs) with
                   | Ok (vs, r) -> Printf.sprintf "Ok ([%s], %s, %s)" (String.concat "; " (List.map g_n vs)) (g_bytes (rd_rest r)) (g_nat (int_of_nat (rd_bytes_read r)))
                   | Err e -> "Err " ^ g_err e) in
        Printf.printf "Example case_%d : (match rd_gets [%s] (rd_init %s) with Ok (vs, r) => Ok (vs, rd_rest r, rd_bytes_read r) | Err e => Err e end) = %s. Proof. vm_compute. reflexivity. Qed.\n"
          !k (String.concat "; " (List.map (fun w -> g_nat (int_of_nat w)) wl)) (g_bytes bs) rhs
    | ["write"; hdr; t; vs] ->
        let ty = parse_type t and h = nat_of_int (int_of_string hdr) in
        let v = parse_value ty vs in
        let rhs = (match lib_write h ty v with Ok bs -> "Ok " ^ g_bytes bs | Err e -> "Err " ^ g_err e) in
        Printf.printf "Example case_%d : lib_write %s %s %s = %s. Proof. vm_compute. reflexivity. Qed.\n" !k (g_nat (int_of_nat h)) (g_type ty) (g_value v) rhs
    | ["frames"; hx] ->
        let bs = bytes_of_string (unhex (if hx = "-" then "" else hx)) in
        let (ps, t) = frames bs in
        let tl = (match t with Clean -> "Clean" | HeaderCut -> "HeaderCut" | OutOfFuel -> "OutOfFuel") in
        Printf.printf "Example case_%d : frames %s = ([%s], %s). Proof. vm_compute. reflexivity. Qed.\n" !k (g_bytes bs)
          (String.concat "; " (List.map (fun p -> Printf.sprintf "{| pk_type := %s; pk_time := %s; pk_payload := %s |}" (g_n p.pk_type) (g_bytes p.pk_time) (g_bytes p.pk_payload)) ps)) tl
    | _ -> failwith ("coqcases: bad line " ^ l))

let () =
  match Sys.argv.(1) with
  | "coqcases" -> cmd_coqcases ()
  | "summary" -> cmd_summary ()
  | "write" -> cmd_write ()
  | "frames" -> cmd_frames ()
  | "defs" -> cmd_defs ()
  | "shipped" -> cmd_shipped ()
  | "zerosize" -> cmd_zerosize ()
  | "version" -> cmd_version ()
  | "container" -> cmd_container ()
  | "mkcontainer" -> cmd_mkcontainer ()
  | "bfblock" -> cmd_bfblock ()
  | "encode" -> cmd_encode ()
  | "bits" -> cmd_bits ()
  | "bitread" -> cmd_bitread ()
  | "decode" -> cmd_decode ()
  | "world" -> cmd_world ()
  | c -> prerr_endline ("unknown command " ^ c); exit 2
